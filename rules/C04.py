"""C04 — XSS filter output contains only white-listed markup and is stable (structural / abstract clauses)."""
from vlib import build, model, q, absint
from vlib.absint import AV, Cell, Out
from vlib.build import AnalysisBroken, REPO

X = 'cppcms::xss::'
ANON = 'cppcms::xss::(anonymous namespace)::'
STAGES = ['split_to_parts', 'parse_part', 'validate_nesting', 'validate_entry_by_rules']


def stage_calls(f):
    out = []
    for i in f.calls():
        sh = q.short_of(f.callee(i))
        if sh in STAGES and (f.bcallee(i) or '').startswith('cppcms::xss::'):
            out.append((sh, i))
    out.sort(key=lambda x: f.point_of(x[1]) and (-f.point_of(x[1])[0], f.point_of(x[1])[1]))
    return out


def run(ctx):
    ctx.explanation = ('Absence of a bypass string in general needs the semantics of tokeniser x nesting x rules for unbounded inputs and is not claimed. Decided: validate and the filter run the same stages in the same order on the same '
                       '(transcoded and charset-validated) byte range; every stage failure reaches `false` / marks the entry invalid; raw copy of an entry is control-dependent on its being valid, invalid entries are removed or pass through the '
                       'escape switch, which is evaluated abstractly for all 256 bytes; the per-entry rule switch is exhaustive over html_data_type; only whole-string regex matching is used.')
    ctx.units = ['src/xss.cpp']
    P = model.Program(build.extract([REPO + '/src/xss.cpp'], include_re='^/repo/(src|private|cppcms)/'))
    ctx.stats['functions'] = len(P.fns)
    R1 = ctx.rule('C04.R1', 'validate and validate_and_filter_if_invalid run the same stages in the same order on the transcoded, charset-validated range; stage failures are never ignored')
    R2 = ctx.rule('C04.R2', 'filter output: an entry is copied verbatim only if it is not invalid; invalid entries are removed or escaped')
    R3 = ctx.rule('C04.R3', 'the escape switch neutralises < > & " for every byte (abstract interpretation) and copies every other byte')
    R4 = ctx.rule('C04.R4', 'tokeniser tiles the input: every entry starts at the cursor and the cursor moves to exactly that entry\'s end (no gap, no overlap, nothing else moves it); a plain_text entry is opened only on a byte other than < > & and extended only over such bytes')
    R10 = ctx.rule('C04.R10', 'tokeniser entries have the shape of their kind, for every input up to a bounded length (E3): the entries tile the input; plain_text = [^<>&]+, html_entity = &[^;]*;, html_tag = <[^>]*>, html_comment = <!-- text without < > & and without "--" -->')
    R5 = ctx.rule('C04.R5', 'attribute values: validate_property_value accepts exactly ([^<>&] | &amp; | &lt; | &gt; | &quot; | &apos; | &#x27; | &#X27; | &#39;)* (E3: every value of 0..2 bytes, every single-byte variation of each entity inside a context, every truncation)')
    R6 = ctx.rule('C04.R6', 'validate_entry_by_rules handles every html_data_type explicitly; invalid / unparsed entries and unknown kinds are rejected; tags and attributes consult the white-list')
    R9 = ctx.rule('C04.R9', 'tag names are compared exactly when nesting is validated: ascii_streq is true iff both names have the same length and agree byte for byte (XHTML) / up to ASCII case (HTML) (E3, names of 0..3 bytes)')
    R7 = ctx.rule('C04.R7', 'attribute / URI expressions are matched as whole strings (regex_match only)')

    va = [f for f in P.by_bname.get(X + 'validate', []) if len(f.params) == 3 and 'const char *' in f.id]
    fi = P.by_bname.get(X + 'validate_and_filter_if_invalid', [])
    ctx.require(len(va) == 1 and len(fi) == 1, 'C04: validate / validate_and_filter_if_invalid not found')
    va, fi = va[0], fi[0]
    seqs = {}
    for f in (va, fi):
        sc = stage_calls(f)
        seq = [s for s, _ in sc]
        seqs[f.short] = seq
        ctx.check(seq == STAGES, R1, '%s:stages-in-order' % f.short, 'stage sequence is %s' % seq, f.where)
        if seq != STAGES:
            continue
        calls = dict(sc)
        # each later stage is dominated by the earlier one
        def anchor(s_):
            L_ = q.enclosing_loops(f, calls[s_])
            return f.N(L_[0])['cond'] if L_ else calls[s_]      # a per-entry stage is represented by its loop (which may run zero times)
        for a, b in zip(STAGES, STAGES[1:]):
            ctx.check(q.before(f, anchor(a), anchor(b)), R1, '%s:%s-before-%s' % (f.short, a, b), 'stage %s can run without %s' % (b, a), f.loc(calls[b]))
        # per-entry stages run over the whole vector
        for s in ('parse_part', 'validate_entry_by_rules'):
            L = q.enclosing_loops(f, calls[s])
            ok = bool(L)
            if ok:
                n = f.N(L[0])
                cond = f.N(f.strip(n['cond']))
                init0 = False
                init = f.strip(n['init']) if n.get('init', -1) >= 0 else None
                if init is not None and f.N(init)['k'] == 'DeclStmt':
                    init0 = f.const_value(f.N(init)['decls'][0].get('init')) == 0
                ok = cond.get('op') == '<' and init0 and not [j for j in f.walk(n['body']) if f.N(j)['k'] in ('BreakStmt', 'ContinueStmt')]
                bound = f.ref_of(cond['ch'][1])
                bd = f.defs_of_var(bound) if bound else []
                ok = ok and len(bd) == 1 and bd[0][1] is not None and any(q.short_of(f.callee(j)) == 'size' for j in f.calls(bd[0][1]))
            ctx.check(ok, R1, '%s:%s-on-every-entry' % (f.short, s), 'stage %s does not visit every entry' % s, f.loc(calls[s]))
        # the range tokenised is the range that was transcoded / charset-validated
        bp, ep = q.param_by_index(f, 0), q.param_by_index(f, 1)
        sp = calls['split_to_parts']
        ctx.check(f.ref_of(f.args(sp)[0]) == bp and f.ref_of(f.args(sp)[1]) == ep, R1, '%s:tokenises-begin-end' % f.short, 'tokeniser is not run on [begin,end)', f.loc(sp))
        tu = [i for i in f.calls() if (f.bcallee(i) or '') == 'booster::locale::conv::to_utf' and f.point_of(i)]
        ctx.check(len(tu) >= 1, R1, '%s:transcodes-non-ascii-compatible-input' % f.short, 'no transcoding branch', f.where)
        for k, t in enumerate(tu):
            for par, nm in ((bp, 'begin'), (ep, 'end')):
                ws = [w for w in f.all_nodes() if f.N(w)['k'] == 'BinaryOperator' and f.N(w).get('op') == '=' and f.ref_of(f.N(w)['ch'][0]) == par and f.point_of(w)]
                # the new value derives from a local std::string (the transcoded / filtered buffer), directly or through the other rebased pointer
                ws = [w for w in ws if any(r.startswith('v:') for r in f.subtree_refs(f.N(w)['ch'][1])) or bp in f.subtree_refs(f.N(w)['ch'][1])]
                pt = f.point_of(t)
                cut = q.blocks_of(f, ws) | f.abnormal_blocks()
                same = any(f.point_of(w)[0] == pt[0] and f.point_of(w)[1] > pt[1] for w in ws)
                cut.discard(pt[0])
                reach = f.reachable_blocks(start=pt[0], cut_blocks=cut, with_catch=False)
                ctx.check(same or f.point_of(sp)[0] not in reach, R1, '%s:to_utf#%d:%s-rebased-onto-transcoded-buffer' % (f.short, k, nm),
                          'after transcoding, the tokeniser still receives the original (still encoded) %s pointer' % nm, f.loc(t))
        # charset validation precedes tokenising whenever an encoding is configured
        g_enc = q.empty_gate(f, lambda i, f=f: any(r.startswith('v:') for r in f.subtree_refs(i)))
        vcalls = [i for i in f.calls() if (f.bcallee(i) or '') in ('cppcms::encoding::valid', 'cppcms::encoding::validate_or_filter')]
        reach = f.reachable_blocks(cut_edges=g_enc, cut_blocks=q.blocks_of(f, vcalls), with_catch=False)
        ctx.check(bool(vcalls) and f.point_of(sp)[0] not in reach, R1, '%s:charset-validated-before-tokenising' % f.short, 'input of a configured encoding can reach the tokeniser without charset validation', f.loc(sp))
        for i in vcalls:
            a = f.args(i)
            ctx.check(f.ref_of(a[1]) == bp and f.ref_of(a[2]) == ep, R1, '%s:%s-on-begin-end#%d' % (f.short, q.short_of(f.callee(i)), i), 'charset validation runs on a different range than the tokeniser', f.loc(i))
    # stage failures: validate -> return false ; filter -> valid=false (+ entry marked)
    inv = va.gate_edges(lambda atom, pol: va.N(atom)['k'] == 'BinaryOperator' and va.N(atom).get('op') == '==' and any(r.endswith('::invalid_data') for r in va.subtree_refs(atom)) and pol is True)
    rule_fail = q.call_gate(va, lambda i: q.short_of(va.callee(i)) == 'validate_entry_by_rules', False)
    enc_fail = q.call_gate(va, lambda i: (va.bcallee(i) or '') == 'cppcms::encoding::valid', False)
    n_f = 0
    for (b, s, lab, tag) in list(inv) + list(rule_fail) + list(enc_fail):
        n_f += 1
        rets = [e for e in va.blocks[s].elems if 'n' in e and va.N(e['n'])['k'] == 'ReturnStmt' and va.const_value(va.ret_value(e['n'])) == 0]
        ctx.check(bool(rets), R1, 'validate:failure-edge#%d->return-false' % n_f, 'a failed stage does not make validate() return false', va.loc(va.blocks[b].term) if va.blocks[b].term else va.where)
    ctx.check(len(inv) >= 3 and len(rule_fail) >= 1 and len(enc_fail) >= 2, R1, 'validate:all-failure-tests-present', 'expected 3 invalid_data tests, the rule test and 2 charset tests (%d,%d,%d)' % (len(inv), len(rule_fail), len(enc_fail)), va.where)
    validv = [d['ref'] for i in fi.all_nodes() if fi.N(i)['k'] == 'DeclStmt' for d in fi.N(i)['decls'] if d['name'] == 'valid']
    ctx.require(validv, 'C04.R1: flag `valid` not found in the filter')
    inv2 = fi.gate_edges(lambda atom, pol: fi.N(atom)['k'] == 'BinaryOperator' and fi.N(atom).get('op') == '==' and any(r.endswith('::invalid_data') for r in fi.subtree_refs(atom)) and pol is True)
    rf2 = q.call_gate(fi, lambda i: q.short_of(fi.callee(i)) == 'validate_entry_by_rules', False)
    vf2 = q.call_gate(fi, lambda i: (fi.bcallee(i) or '') == 'cppcms::encoding::validate_or_filter', False)
    out_loop = [L for L in q.loops(fi) if any(q.short_of(fi.callee(j)) == 'append' for j in fi.calls(L))]
    n_f = 0
    for (b, s, lab, tag) in list(inv2) + list(rf2) + list(vf2):
        if out_loop and fi.blocks[b].term is not None and fi.contains(out_loop[-1], fi.blocks[b].term):
            continue        # the test inside the output loop selects the emission, it is not a validation stage
        n_f += 1
        ws = [e['n'] for e in fi.blocks[s].elems if 'n' in e and fi.N(e['n'])['k'] == 'BinaryOperator' and fi.N(e['n']).get('op') == '=' and fi.ref_of(fi.N(e['n'])['ch'][0]) == validv[0] and fi.const_value(fi.N(e['n'])['ch'][1]) == 0]
        ctx.check(bool(ws), R1, 'filter:failure-edge#%d->valid=false' % n_f, 'a failed stage leaves `valid` true: invalid input would be returned unchanged', fi.loc(fi.blocks[b].term) if fi.blocks[b].term else fi.where)
    succ = q.nonfalse_returns(fi)
    g_valid = fi.gate_edges(lambda atom, pol: fi.ref_of(atom) == validv[0] and pol is True)
    ctx.check(len(succ) == 1 and fi.only_through(succ[0], g_valid) and not [w for w in q.writes_to(fi, q.param_by_index(fi, 3)) if q.before(fi, w, succ[0])], R1,
              'filter:true-only-if-valid-and-output-untouched', 'filter reports valid input without all stages passing / touches the output', fi.where)
    # a failed rule check invalidates the entry and its pair
    mark = [w for w in fi.all_nodes() if fi.N(w)['k'] == 'BinaryOperator' and fi.N(w).get('op') == '=' and any(r.endswith('::invalid_data') for r in fi.subtree_refs(fi.N(w)['ch'][1])) and fi.point_of(w)]
    ctx.check(len(mark) == 2 and all(fi.only_through(w, rf2) for w in mark), R1, 'filter:rule-failure-marks-entry-and-pair-invalid', 'an entry failing the rules (or its partner tag) is not marked invalid', fi.where)

    # ---------------- R2
    ctx.require(out_loop, 'C04.R2: output loop not found')
    L = out_loop[-1]
    aps = [i for i in fi.calls(L) if q.short_of(fi.callee(i)) == 'append']
    g_ok = fi.gate_edges(lambda atom, pol: fi.N(atom)['k'] == 'BinaryOperator' and fi.N(atom).get('op') == '==' and any(r.endswith('::invalid_data') for r in fi.subtree_refs(atom)) and pol is False and
                         fi.blocks and True)
    g_ok = [g for g in g_ok if fi.blocks[g[0]].term is not None and fi.contains(L, fi.blocks[g[0]].term)]
    ctx.check(len(aps) == 1 and fi.only_through(aps[0], g_ok), R2, 'filter:raw-copy-only-for-valid-entries', 'an invalid entry can be copied to the output verbatim', fi.loc(aps[0]) if aps else fi.where)
    if aps:
        a = fi.args(aps[0])
        # append(begin-of-entry, end-of-entry - begin-of-entry), directly on the entry's fields or through locals initialised from them
        r0 = set(model.strip_targs(r).rsplit('::', 2)[-2] + '::' + model.strip_targs(r).rsplit('::', 1)[-1] for r in q.deep_refs(fi, a[0]) if r.startswith('f:'))
        r1 = set(model.strip_targs(r).rsplit('::', 2)[-2] + '::' + model.strip_targs(r).rsplit('::', 1)[-1] for r in q.deep_refs(fi, a[1]) if r.startswith('f:'))
        from vlib import lin as _lin
        S_ = _lin.Symb(fi)
        l0, l1 = S_.lin(a[0]), S_.lin(a[1])
        # length == X - Y with Y the very expression that is passed as the start, nothing added or subtracted
        shape = l1.c == 0 and sorted(l1.t.values()) == [-1, 1] and l0.c == 0 and list(l0.t.values()) == [1] and l1.t.get(list(l0.t)[0]) == -1
        ok = shape and 'entry::begin' in r0 and 'entry::end' not in r0 and {'entry::begin', 'entry::end'} <= r1
        ctx.check(ok, R2, 'filter:raw-copy-is-the-entry-range', 'copied range is not [entry.begin, entry.end)', fi.loc(aps[0]))
    sw = [j for j in fi.walk(L) if fi.N(j)['k'] == 'SwitchStmt']
    ctx.require(len(sw) == 1, 'C04.R2: escape switch not found')
    g_bad = [g for g in fi.gate_edges(lambda atom, pol: fi.N(atom)['k'] == 'BinaryOperator' and fi.N(atom).get('op') == '==' and any(r.endswith('::invalid_data') for r in fi.subtree_refs(atom)) and pol is True)
             if fi.blocks[g[0]].term is not None and fi.contains(L, fi.blocks[g[0]].term)]
    emits = [i for i in fi.calls(sw[0]) if fi.N(i)['k'] == 'CXXOperatorCallExpr' and fi.N(i).get('op') == '+=']
    ctx.check(len(emits) >= 5 and all(fi.only_through(i, g_bad) for i in emits), R2, 'filter:escape-branch-only-for-invalid-entries', 'escaped emission reachable for valid entries', fi.loc(sw[0]))
    # a valid entry is never dropped: within one iteration, without taking an `entry is invalid` edge, the next iteration cannot be
    # reached except through the verbatim copy
    Ln = fi.N(L)
    cb = fi.point_of(Ln['cond'])[0] if Ln.get('cond', -1) is not None and Ln.get('cond', -1) >= 0 and fi.point_of(Ln['cond']) else None
    okd = cb is not None and bool(aps)
    if okd:
        starts = [s_ for (s_, lab) in fi.succ_edges(cb) if lab is True]
        inc_b = fi.point_of(Ln['inc'])[0] if Ln.get('inc', -1) is not None and Ln.get('inc', -1) >= 0 and fi.point_of(Ln['inc']) else cb
        for s_ in starts:
            reach = fi.reachable_blocks(start=s_, cut_edges=[e for e in g_bad if len(e) == 4], cut_blocks=(q.blocks_of(fi, aps) | {cb}) - {s_})
            okd = okd and inc_b not in reach and (cb not in reach or cb == s_)
    ctx.check(okd, R2, 'filter:remove-mode-drops-only-invalid-entries', 'remove mode can drop a valid entry', fi.where)

    # ---------------- R3  (abstract interpretation of the escape switch for every byte)
    cvar = None
    for j in fi.walk(L):
        if fi.N(j)['k'] == 'DeclStmt':
            for d in fi.N(j)['decls']:
                if d['name'] == 'c':
                    cvar = d['ref']
    outv = fi.ref_of(fi.N(emits[0])['ch'][1]) if emits else None
    ctx.require(cvar and outv, 'C04.R3: escape switch variables not found')
    ENT = {ord('<'): b'&lt;', ord('>'): b'&gt;', ord('&'): b'&amp;', ord('"'): b'&quot;'}
    bad = []
    for v in range(256):
        it = absint.Interp(P, [])
        o = Out('filtered')
        env = {cvar: Cell(AV.const(v - 256 if v > 127 else v)), outv: Cell(o)}
        try:
            it.exec_stmt(fi, sw[0], env)
        except absint._Break:
            pass
        got = bytes((e.lo & 0xFF) for e in o.items)
        exp = ENT.get(v, bytes([v]))
        if got != exp:
            bad.append((v, got))
    ctx.check(not bad, R3, 'filter:escape-switch:per-byte', ('byte %02X is emitted as %r' % bad[0]) if bad else '', fi.loc(sw[0]), detail={'bytes': 256})

    # ---------------- R6
    ve = P.fn(ANON + 'validate_entry_by_rules')
    en = [e for e in P.enums.values() if e['name'].endswith('html_data_type')]
    ctx.require(en, 'C04.R6: html_data_type enum not found')
    sws = [j for j in ve.walk() if ve.N(j)['k'] == 'SwitchStmt']
    top = sws[0]
    labels = set()
    for j in ve.walk(ve.N(top)['body']):
        if ve.N(j)['k'] == 'CaseStmt' and ve.enclosing(j, ('SwitchStmt',)) == top:
            labels.add(ve.const_value(ve.N(j)['lhs']))
    for e in en[0]['enumerators']:
        ctx.check(e['value'] in labels, R6, 'validate_entry_by_rules:case-%s' % e['name'], 'entry kind %s is not handled explicitly' % e['name'], ve.loc(top))
    dflt = [j for j in ve.walk(ve.N(top)['body']) if ve.N(j)['k'] == 'DefaultStmt' and ve.enclosing(j, ('SwitchStmt',)) == top]
    ok = len(dflt) == 1 and any(ve.N(j)['k'] == 'ReturnStmt' and ve.const_value(ve.ret_value(j)) == 0 for j in ve.walk(dflt[0]))
    ctx.check(ok, R6, 'validate_entry_by_rules:default-rejects', 'unknown entry kinds are accepted', ve.loc(top))
    val = {e['name']: e['value'] for e in en[0]['enumerators']}
    for nm in ('invalid_data', 'html_tag'):
        cs = [j for j in ve.walk(ve.N(top)['body']) if ve.N(j)['k'] == 'CaseStmt' and ve.const_value(ve.N(j)['lhs']) == val[nm] and ve.enclosing(j, ('SwitchStmt',)) == top]
        ok = len(cs) == 1
        if ok:
            sub = ve.N(cs[0])['sub']
            while ve.N(sub)['k'] == 'CaseStmt':
                sub = ve.N(sub)['sub']
            ok = ve.N(sub)['k'] == 'ReturnStmt' and ve.const_value(ve.ret_value(sub)) == 0
        ctx.check(ok, R6, 'validate_entry_by_rules:%s-rejected' % nm, '%s entries are accepted' % nm, ve.loc(top))
    succ = q.nonfalse_returns(ve)
    for nm, callee in (('valid_tag', 'valid_tag'), ('valid_entity', 'valid_entity')):
        cs = [i for i in ve.calls() if q.short_of(ve.callee(i)) == callee]
        ctx.check(len(cs) == 1, R6, 'validate_entry_by_rules:consults-%s' % nm, 'white-list %s is not consulted' % nm, ve.where)
    vp = [i for i in ve.calls() if q.short_of(ve.callee(i)) in ('valid_property', 'valid_boolean_property')]
    lp = q.loops(ve)
    ok = len(vp) == 2 and len(lp) == 1 and all(ve.contains(lp[0], i) for i in vp)
    if ok:
        # every attribute goes through exactly one of the two checks, failure returns false
        for i in vp:
            g = q.call_gate(ve, lambda j, i=i: j == i, False)
            ok = ok and all(any('n' in e and ve.N(e['n'])['k'] == 'ReturnStmt' and ve.const_value(ve.ret_value(e['n'])) == 0 for e in ve.blocks[s].elems) for (_, s, _, _) in [e for e in g if len(e) == 4])
        body = ve.N(lp[0])['body']
        pb = ve.point_of(body) if ve.point_of(body) else None
        esc = [j for j in ve.walk(body) if ve.N(j)['k'] in ('ContinueStmt', 'BreakStmt')]
        ok = ok and not esc
    ctx.check(ok, R6, 'validate_entry_by_rules:every-attribute-checked', 'an attribute can skip valid_property / valid_boolean_property', ve.where)
    dup = [i for i in ve.calls() if q.short_of(ve.callee(i)) == 'find' and lp and ve.contains(lp[0], i)]
    ctx.check(len(dup) == 2, R6, 'validate_entry_by_rules:duplicate-attributes-rejected', 'duplicate attributes are not detected', ve.where)
    inv_tag = [j for j in ve.walk() if ve.N(j)['k'] == 'CaseStmt' and any(r.endswith('rules::invalid_tag') for r in ve.subtree_refs(ve.N(j)['lhs']))]
    ok = len(inv_tag) == 1 and ve.N(ve.N(inv_tag[0])['sub'])['k'] == 'ReturnStmt' and ve.const_value(ve.ret_value(ve.N(inv_tag[0])['sub'])) == 0
    ctx.check(ok, R6, 'validate_entry_by_rules:unlisted-tag-rejected', 'a tag that is not on the white-list is accepted', ve.where)

    # ---------------- R7
    xf = [f for f in P.fns.values() if f.file.endswith('/src/xss.cpp')]
    bad = [(f, i) for f in xf for i in f.calls() if (f.bcallee(i) or '') in ('booster::regex_search', 'booster::regex::search')]
    nm = sum(1 for f in xf for i in f.calls() if (f.bcallee(i) or '') == 'booster::regex_match')
    ctx.check(not bad and nm >= 2, R7, 'xss.cpp:regex_match-only', 'a substring search is used to validate attribute values / URIs', bad[0][0].loc(bad[0][1]) if bad else xf[0].file, detail={'regex_match_calls': nm})
    uv = [f for f in xf if 'uri_validator' in (f.record or '') and f.short == 'operator()']
    for f in uv:
        rm = [i for i in f.calls() if (f.bcallee(i) or '') == 'booster::regex_match']
        ctx.check(len(rm) >= 1, R7, 'uri_validator:scheme-whole-match', 'URI scheme is not matched as a whole', f.where)

    # ---------------- R9 ascii_streq exact (E3) and used by validate_nesting for every closing tag
    from vlib.absint import Arr, PV
    se = P.fn(ANON + 'ascii_streq')
    low = lambda v: v + 32 if 65 <= v <= 90 else v
    REPS = [0x41, 0x61, 0x5A, 0x7A, 0x40, 0x5B, 0x60, 0x7B, 0x30, 0x2D, 0xC1, 0xE1]
    for xh in (1, 0):
        for (la, lb) in ((0, 0), (1, 1), (2, 2), (3, 3), (0, 1), (1, 0), (1, 2), (2, 1), (2, 3), (3, 1)):
            bad = None
            nb = 0
            for rep in (REPS if la and la == lb else REPS[:2]):
                for pos in (range(lb) if la == lb and lb else [None]):
                    left = [rep] * la

                    def runs(it, left=left, lb=lb, pos=pos, rep=rep, xh=xh):
                        sg = lambda v: v - 256 if v > 127 else v
                        a = Arr([AV.const(sg(v)) for v in left] + [AV.const(0)], 'left')
                        right = [AV.const(sg(rep))] * lb
                        if pos is not None:
                            right[pos] = it.inbyte(0)
                        b = Arr(right + [AV.const(0)], 'right')
                        return it.call_fn(se, [PV(a, 0), PV(a, len(left)), PV(b, 0), PV(b, lb), AV.const(xh)])
                    for (bx, r, it) in absint.explore(P, runs, [[(-128, 127)]] if pos is not None else [[]]):
                        nb += 1
                        if pos is None:
                            want = {la == lb}
                        else:
                            vals = [v & 0xFF for v in range(bx[0][0], bx[0][1] + 1)]
                            want = set(((v == rep) if xh else (low(v) == low(rep))) for v in vals)
                        if not (isinstance(r, AV) and r.is_const()) or want != {bool(r.lo)}:
                            bad = bad or ('left=%r right varies at %s in %s' % (left, pos, bx), r)
            ctx.check(bad is None, R9, 'ascii_streq:%s:len=%d/%d' % ('xhtml' if xh else 'html', la, lb), ('%s -> %r' % bad) if bad else '', se.where, detail={'boxes': nb})
    vn = P.fn(ANON + 'validate_nesting')
    cmpc = [i for i in vn.calls() if vn.bcallee(i) == ANON + 'ascii_streq']
    pairw = [w for w in q.field_writes(vn, 'tag_data::pair') if True]
    g_eq = q.call_gate(vn, lambda i: vn.bcallee(i) == ANON + 'ascii_streq', True)      # also through a one-line predicate helper (seen through by cond_facts)
    ctx.check(bool(g_eq) and bool(pairw) and all(vn.only_through(w, g_eq) for w in pairw), R9, 'validate_nesting:pairing-only-on-equal-names', 'a closing tag is paired with an opening tag without the name comparison', vn.where)
    # pairing is mutual: where an opening and a closing tag are paired, each one records the index of the other
    def index_of_target(w):
        """index variable of the element whose `pair` is written: parsed[k].tag.pair -> k; cur.tag.pair with entry &cur = parsed[i] -> i"""
        lhs = vn.N(w)['ch'][0]
        subs = [x for x in vn.walk(lhs) if vn.N(x)['k'] == 'CXXOperatorCallExpr' and vn.N(x).get('op') == '[]' and len(vn.N(x)['ch']) == 3]
        if subs:
            return vn.ref_of(vn.N(subs[0])['ch'][2])
        for r in [r for r in vn.subtree_refs(lhs) if r.startswith('v:')]:
            for i_ in vn.all_nodes():
                if vn.N(i_)['k'] == 'DeclStmt':
                    for d in vn.N(i_)['decls']:
                        if d['ref'] == r and d.get('isref') and d.get('init') is not None:
                            subs = [x for x in vn.walk(d['init']) if vn.N(x)['k'] == 'CXXOperatorCallExpr' and vn.N(x).get('op') == '[]' and len(vn.N(x)['ch']) == 3]
                            if subs:
                                return vn.ref_of(vn.N(subs[0])['ch'][2])
        return None
    byblock = {}
    for w in pairw:
        byblock.setdefault(vn.point_of(w)[0], []).append(w)
    okm = bool(byblock)
    for b_, ws in sorted(byblock.items()):
        rel = set((index_of_target(w), vn.ref_of(vn.N(w)['ch'][1])) for w in ws)
        okm = okm and len(rel) == 2 and None not in [x for pr in rel for x in pr] and all((b2, a2) in rel for (a2, b2) in rel) and all(a2 != b2 for (a2, b2) in rel)
    ctx.check(okm, R9, 'validate_nesting:pairing-is-mutual', 'a paired tag does not record the index of its partner (the filter then keeps one end of a rejected pair)', vn.where)

    # ---------------- R4 tokeniser tiling
    sp = P.fn(ANON + 'split_to_parts')
    endp = q.param_by_index(sp, 1)
    mains = [L for L in q.loops(sp) if sp.N(L)['k'] in ('WhileStmt', 'ForStmt') and not q.enclosing_loops(sp, L) and
             any(sp.bcallee(i) and q.short_of(sp.bcallee(i)) in ('push_back', 'emplace_back') for i in sp.calls(sp.N(L)['body']))]
    ctx.require(len(mains) == 1, 'C04.R4: main loop of split_to_parts not found')
    ML = mains[0]
    cnd = sp.N(sp.strip(sp.N(ML)['cond']))
    cur = [r for r in sp.subtree_refs(sp.N(ML)['cond']) if r.startswith('v:')]
    ctx.require(len(cur) == 1 and endp in sp.subtree_refs(sp.N(ML)['cond']) and cnd['k'] == 'BinaryOperator' and cnd.get('op') in ('!=', '<'), 'C04.R4: main loop is not `cursor != end`')
    cur = cur[0]
    d0 = [v for (d, v) in sp.defs_of_var(cur) if not sp.contains(ML, d)]
    ctx.check(len(d0) == 1 and d0[0] is not None and sp.ref_of(d0[0]) == q.param_by_index(sp, 0), R4, 'split_to_parts:cursor-starts-at-begin', 'the cursor does not start at the beginning of the input', sp.loc(ML))
    pushes = [i for i in sp.calls(sp.N(ML)['body']) if sp.bcallee(i) and q.short_of(sp.bcallee(i)) in ('push_back', 'emplace_back')]
    curw = [w for w in q.writes_to(sp, cur, sp.N(ML)['body'])]

    def is_cur_plus_1(x):
        n_ = sp.N(sp.strip(x))
        return n_['k'] == 'BinaryOperator' and n_.get('op') == '+' and sp.ref_of(n_['ch'][0]) == cur and sp.const_value(n_['ch'][1]) == 1
    plain = []
    for k, i in enumerate(pushes):
        ctor = [j for j in sp.walk(i) if sp.N(j)['k'] in ('CXXConstructExpr', 'CXXTemporaryObjectExpr') and (sp.type_of(sp.N(j)) or '').endswith('entry') and len(sp.args(j)) == 3]
        if not ctor:
            ctx.check(False, R4, 'split_to_parts:entry#%d:shape' % k, 'entry is not built as entry(begin,end,type)', sp.loc(i))
            continue
        a = sp.args(ctor[0])
        isplain = any(model.strip_targs(r).endswith('plain_text') for r in sp.subtree_refs(a[2]))
        if isplain:
            plain.append((k, i, a))
    # tiling, decided per path through one turn of the main loop (E4 path engine, helpers inlined one level, inner scans summarised
    # by a fresh value of their cursor): exactly one entry is emitted, it starts where the cursor stood at the top of the turn and
    # the cursor ends exactly at its end
    from vlib import linbound as _lb
    from vlib.lin import Lin as _L4
    E4t = _lb.Engine(P, inline_depth=1)
    headb = sp.point_of(sp.N(ML)['cond'])[0]
    turns = []

    def _log(st, ev):
        st.env['__log'] = st.env.get('__log', ()) + (ev,)

    def site(E, fn, st, node, chain):
        if fn.bcallee(node) and q.short_of(fn.bcallee(node)) in ('push_back', 'emplace_back'):
            ctor_ = [j for j in fn.walk(node) if fn.N(j)['k'] in ('CXXConstructExpr', 'CXXTemporaryObjectExpr') and (fn.type_of(fn.N(j)) or '').endswith('entry') and len(fn.args(j)) == 3]
            if ctor_:
                aa = fn.args(ctor_[0])
                _log(st, ('push', E.value(fn, st, aa[0]), E.value(fn, st, aa[1]), fn.loc(node)))
            else:
                _log(st, ('push', None, None, fn.loc(node)))

    def head(E, fn, b, st):
        if fn is sp and b == headb:
            _log(st, ('head', st.env.get(cur, _L4.atom(cur))))

    def back(E, fn, b, st):
        if fn is sp and b == headb:
            lg = st.env.get('__log', ())
            k_ = max([j for j, e_ in enumerate(lg) if e_[0] == 'head'] or [-1])
            turns.append((lg[k_][1] if k_ >= 0 else None, [e_ for e_ in lg[k_ + 1:] if e_[0] == 'push'], st.env.get(cur, _L4.atom(cur))))
    E4t.site_hooks.append(site)
    E4t.loophead_hook, E4t.backedge_hook = head, back
    try:
        E4t.analyse(sp)
    except AnalysisBroken as e_:
        turns = None
        ctx.check(False, R4, 'split_to_parts:turns-of-the-main-loop-explored', 'path exploration failed: %s' % e_, sp.where)
    if turns is not None:
        badt = None
        for (p0, ps, p1) in turns:
            if p0 is None or len(ps) != 1:
                badt = badt or ('a turn of the loop emits %d entries (%s)' % (len(ps), [x[3] for x in ps]), ps[0][3] if ps else sp.loc(ML))
                continue
            (_, b_, e_, where_) = ps[0]
            if b_ is None or (b_ - p0).key() != _L4.const(0).key():
                badt = badt or ('the entry emitted at %s does not start where the cursor stood at the top of the turn (starts at %r, cursor %r): bytes lost or seen twice' % (where_, b_, p0), where_)
            elif (e_ - p1).key() != _L4.const(0).key():
                badt = badt or ('after the entry emitted at %s the cursor is %r, the entry ends at %r: bytes lost or seen twice' % (where_, p1, e_), where_)
        ctx.check(bool(turns) and badt is None, R4, 'split_to_parts:every-turn-emits-one-entry-from-the-cursor-to-the-new-cursor', (badt[0] if badt else 'no complete turn of the main loop found'),
                  (badt[1] if badt else sp.loc(ML)), detail={'turns': len(turns)})
    ctx.check(len(plain) >= 1, R4, 'split_to_parts:plain-text-entries-found', 'no plain_text entry is produced', sp.where)

    def ne_gate(f, K, over):
        """edges on which the byte under `over` (a pointer variable) is known to differ from K"""
        def pred(atom, pol):
            n_ = f.N(atom)
            if n_['k'] != 'BinaryOperator' or n_.get('op') not in ('==', '!='):
                return False
            l_, r_ = n_['ch']
            for x, c in ((l_, r_), (r_, l_)):
                if f.const_value(c) == K and over in q.deep_refs(f, x):
                    return (n_['op'] == '==' and pol is False) or (n_['op'] == '!=' and pol is True)
            return False
        return f.gate_edges(pred)
    for (k, i, a) in plain:
        for K, nm_ in ((60, '<'), (62, '>'), (38, '&')):
            g_ = ne_gate(sp, K, cur)
            ctx.check(bool(g_) and sp.only_through(i, g_), R4, 'split_to_parts:plain#%d:opened-on-a-byte-other-than-%s' % (k, nm_), 'a plain_text entry can start with %s' % nm_, sp.loc(i))
        ev = sp.ref_of(a[1])
        scans = [L for L in q.loops(sp) if L != ML and ev and q.writes_to(sp, ev, L)]
        ok = ev is not None and len(scans) == 1
        if ok:
            SL = scans[0]
            steps = [w for w in q.writes_to(sp, ev, SL) if not (sp.N(SL).get('init') is not None and sp.N(SL).get('init', -1) >= 0 and sp.contains(sp.N(SL)['init'], w))]
            init = [w for w in q.writes_to(sp, ev, SL) if w not in steps] + [d for (d, v) in sp.defs_of_var(ev) if v is not None and not sp.contains(SL, d) and q.reaches(sp, d, SL)]
            ok = len(steps) == 1 and (sp.N(steps[0])['k'] == 'UnaryOperator' and sp.N(steps[0]).get('op') == '++')
            for K, nm_ in ((60, '<'), (62, '>'), (38, '&')):
                g_ = ne_gate(sp, K, ev)
                ok = ok and bool(g_) and all(sp.only_through(st, g_) for st in steps)
            # starts right behind the first byte
            iv = [v for (d, v) in sp.defs_of_var(ev) if v is not None and (sp.contains(SL, d) and d not in steps or not sp.contains(SL, d))]
            ok = ok and any(is_cur_plus_1(v) for v in iv) and all(is_cur_plus_1(v) or sp.const_value(v) == 0 for v in iv)
        ctx.check(ok, R4, 'split_to_parts:plain#%d:extended-only-over-bytes-other-than-<>&' % k, 'the scan that extends a plain_text entry steps over a byte that opens markup', sp.loc(i))
    # entries of a delimited kind end with their delimiter: the entry is emitted only on the edge where the last byte it covers was
    # compared equal to it (a tag that does not end in '>' or an entity that does not end in ';' would be re-read by a browser differently)
    TERM = {'html_tag': 62, 'html_entity': 59, 'html_comment': 62}

    def eq_gate(f, Kmatch):
        def pred(atom, pol):
            n_ = f.N(atom)
            if n_['k'] != 'BinaryOperator' or n_.get('op') not in ('==', '!='):
                return False
            for x, c in ((n_['ch'][0], n_['ch'][1]), (n_['ch'][1], n_['ch'][0])):
                if Kmatch(c) and f.N(f.strip(x))['k'] in ('UnaryOperator', 'ArraySubscriptExpr', 'DeclRefExpr'):
                    return (n_['op'] == '==' and pol is True) or (n_['op'] == '!=' and pol is False)
            return False
        return f.gate_edges(pred)
    nt = 0
    for k, i in enumerate(pushes):
        ctor = [j for j in sp.walk(i) if sp.N(j)['k'] in ('CXXConstructExpr', 'CXXTemporaryObjectExpr') and (sp.type_of(sp.N(j)) or '').endswith('entry') and len(sp.args(j)) == 3]
        if not ctor:
            continue
        ta = sp.args(ctor[0])[2]
        # where the kind of the entry is decided: the push itself (enumerator written in place, or computed by a helper that can only
        # downgrade it to invalid_data), or the assignments of a local `kind` variable the push uses
        def kinds_of(node):
            refs = set(sp.subtree_refs(node))
            for c_ in sp.calls(node):
                g_ = P.fns.get(sp.N(c_).get('callee') or '')
                if g_ is not None and g_.entry is not None and g_.file == sp.file:
                    for r_ in g_.returns():
                        if g_.ret_value(r_) is not None:
                            refs |= set(g_.subtree_refs(g_.ret_value(r_)))
            return set(model.strip_targs(r).rsplit('::', 1)[-1] for r in refs) & set(TERM)
        sites_ = []
        tv = sp.ref_of(ta)
        if tv and tv.startswith('v:'):
            ds_ = [(d_, v_) for (d_, v_) in sp.defs_of_var(tv) if v_ is not None]
            first = [d_ for (d_, v_) in ds_ if sp.N(d_)['k'] == 'DeclStmt']
            for (d_, v_) in ds_:
                for kind in kinds_of(v_):
                    # the declaration's initial kind is decided at the push (a later assignment can only replace it); an assignment decides where it stands
                    sites_.append((kind, i if d_ in first else d_))
        else:
            sites_ = [(kind, i) for kind in kinds_of(ta)]
        for (kind, site_) in sites_:
            nt += 1
            g_ = eq_gate(sp, lambda c, K=TERM[kind]: sp.const_value(c) == K)
            ctx.check(bool(g_) and sp.only_through(site_, g_), R4, 'split_to_parts:entry#%d:%s-ends-with-its-delimiter' % (k, kind), 'a %s entry is emitted without its closing delimiter having been seen' % kind, sp.loc(site_))
    for w in [w for w in curw if sp.N(w)['k'] == 'BinaryOperator' and sp.N(sp.strip(sp.N(w)['ch'][1]))['k'] == 'CallExpr']:
        c_ = sp.strip(sp.N(w)['ch'][1])
        g_ = P.fns.get(sp.N(c_).get('callee') or '')
        if g_ is None or g_.entry is None:
            continue
        kinds = [(ai_, model.strip_targs(r).rsplit('::', 1)[-1]) for ai_, a_ in enumerate(sp.args(c_)) for r in sp.subtree_refs(a_) if model.strip_targs(r).rsplit('::', 1)[-1] in TERM]
        for (ai_, kind) in kinds:
            nt += 1
            tparams = [pi_ for pi_, a_ in enumerate(sp.args(c_)) if sp.const_value(a_) == TERM[kind] and pi_ != ai_]
            okk = False
            for pi_ in tparams:
                tp = g_.params[pi_]['ref']
                gg = eq_gate(g_, lambda c, tp=tp: g_.ref_of(c) == tp)
                gp_ = [i for i in g_.calls() if g_.bcallee(i) and q.short_of(g_.bcallee(i)) in ('push_back', 'emplace_back') and g_.params[ai_]['ref'] in g_.subtree_refs(i)]
                okk = okk or (bool(gg) and bool(gp_) and all(g_.only_through(i, gg) for i in gp_) and not q.writes_to(g_, tp))
            ctx.check(okk, R4, 'split_to_parts:helper-entry:%s-ends-with-its-delimiter' % kind, 'a %s entry is emitted by the helper without its closing delimiter having been seen' % kind, sp.loc(w))
    ctx.check(nt >= 3, R4, 'split_to_parts:delimited-entries-found', 'expected tag, entity and comment entries', sp.where)
    ctx.floor(R4, 12)

    # ---------------- R10 tokeniser output shape, exhaustively for short inputs (E3)
    import re as _re2, itertools as _it
    from vlib.absint import Arr as _Arr2, PV as _PV2, Out as _Out2
    ET = dict((e['name'], e['value']) for e in P.enums[[k_ for k_ in P.enums if k_.endswith('::html_data_type')][0]]['enumerators'])
    SHAPE = {ET['plain_text']: _re2.compile(b'[^<>&]+\\Z', _re2.S), ET['html_entity']: _re2.compile(b'&[^;]*;\\Z', _re2.S), ET['html_tag']: _re2.compile(b'<[^>]*>\\Z', _re2.S),
             ET['html_comment']: _re2.compile(b'<!--(?:[^<>&-]|-(?!-))*-->\\Z', _re2.S)}
    SPECIAL = [sgn for sgn in (60, 62, 38, 59, 33, 45)]

    def tok_hooks():
        def push(it, fn, i, env):
            ctor = [j for j in fn.walk(i) if fn.N(j)['k'] in ('CXXConstructExpr', 'CXXTemporaryObjectExpr') and (fn.type_of(fn.N(j)) or '').endswith('entry') and len(fn.args(j)) == 3]
            if not ctor:
                raise absint.Unsupported('push_back of something that is not entry(b,e,t)')
            a = [it.rvalue(fn, x, env) for x in fn.args(ctor[0])]
            if not (isinstance(a[0], _PV2) and isinstance(a[1], _PV2) and isinstance(a[2], AV)):
                raise absint.Unsupported('entry arguments')
            if not a[2].is_const():
                it.split_on(a[2].deps)
            it.events.append((a[0].off, a[1].off, a[2].lo))
            return AV.const(0)
        nop = lambda it, fn, i, env: AV.const(0)
        return {'std::vector::push_back': push, 'std::vector::emplace_back': push, 'std::vector::clear': nop, 'std::vector::reserve': nop}

    def run_tok(tmpl, free):
        def runs(it):
            el, k_ = [], 0
            for j, v in enumerate(tmpl):
                if j in free:
                    el.append(it.inbyte(k_))
                    k_ += 1
                else:
                    el.append(AV.const(v - 256 if v > 127 else v))
            a = _Arr2(el + [AV.const(0)], 'input')
            it.hooks = tok_hooks()
            it.events = []
            it.call_fn(sp, [_PV2(a, 0), _PV2(a, len(tmpl)), _Out2('tags')])
            return list(it.events)
        nb = 0
        fr = sorted(free)
        try:
            explored = list(absint.explore(P, runs, [[(-128, 127)] * len(fr)]))
        except absint.OutOfBounds as e_:
            return 'template %r with %d free byte(s): %s' % (bytes(tmpl), len(fr), e_), nb
        for (bx, ev, it) in explored:
            nb += 1
            # tiling
            pos = 0
            for (b_, e_, t_) in ev:
                if b_ != pos or e_ <= b_ or e_ > len(tmpl):
                    return 'box %s: entries %s do not tile the input of %d bytes' % (bx, ev, len(tmpl)), nb
                pos = e_
            if pos != len(tmpl):
                return 'box %s: entries %s stop at %d of %d bytes' % (bx, ev, pos, len(tmpl)), nb
            cands = []
            for (lo, hi) in bx:
                c = set([lo, hi]) | set(x for x in SPECIAL if lo <= x <= hi)
                cands.append(sorted(c))
            for combo in _it.product(*cands):
                bs = list(tmpl)
                for p_, v in zip(fr, combo):
                    bs[p_] = v & 0xFF
                bs = bytes(bs)
                for (b_, e_, t_) in ev:
                    rx = SHAPE.get(t_)
                    if t_ != ET['invalid_data'] and (rx is None or not rx.match(bs[b_:e_])):
                        nm_ = [k2 for k2, v2 in ET.items() if v2 == t_]
                        return 'input %r: bytes %r emitted as %s' % (bs, bs[b_:e_], nm_[0] if nm_ else t_), nb
        return None, nb
    maxfree = 3          # 4 free bytes are ~160k boxes per template: beyond the budget, and the templates below place the free bytes where the grammar looks
    for L in range(0, maxfree + 1):
        bad, nb = run_tok([0] * L, set(range(L)))
        ctx.check(bad is None, R10, 'split_to_parts:all-inputs-of-%d-bytes' % L, bad or '', sp.where, detail={'boxes': nb})
    for pre, k_ in ((b'<!--', maxfree), (b'a<!--', maxfree - 1), (b'<!--a--', 2), (b'<!----', 2), (b'<!--a', maxfree - 1)):
        for kk in range(1, k_ + 1):
            t_ = list(pre) + [0] * kk
            bad, nb = run_tok(t_, set(range(len(pre), len(t_))))
            ctx.check(bad is None, R10, 'split_to_parts:%s+%d-free-bytes' % (pre.decode(), kk), bad or '', sp.where, detail={'boxes': nb})
    # complete comments with free bytes inside the opener, the text and the closer
    for pre, nfree, post in ((b'<!--', 1, b'-->'), (b'<!--', 2, b'-->'), (b'<!--a', 1, b'b-->'), (b'x<!--', 1, b'-->y'), (b'<', 3, b'a-->'), (b'<!--a', 3, b''), (b'<!--a', 2, b'>'), (b'<!--ab', 1, b'->'),
                             (b'<a', 2, b'>b'), (b'&a', 2, b';b'), (b'<!-', 1, b'-->'), (b'<!', 2, b'-->')):
        t_ = list(pre) + [0] * nfree + list(post)
        bad, nb = run_tok(t_, set(range(len(pre), len(pre) + nfree)))
        ctx.check(bad is None, R10, 'split_to_parts:%s+%d-free-bytes+%s' % (pre.decode(), nfree, post.decode()), bad or '', sp.where, detail={'boxes': nb})
    ctx.floor(R10, 16)

    # ---------------- R5 attribute value language (E3)
    import re as _re
    from vlib.absint import Arr as _Arr, PV as _PV
    vpv = P.fn(ANON + 'validate_property_value')
    LANG = _re.compile(b'(?:[^<>&]|&(?:amp|lt|gt|quot|apos|#x27|#X27|#39);)*\\Z', _re.S)

    def want_of(bs):
        return LANG.match(bytes(bs)) is not None
    sg = lambda v: v - 256 if v > 127 else v

    def run_template(tmpl, free):
        """tmpl: list of byte values; free: positions that range over all 256 values.  Returns first disagreement or None, #boxes"""
        def runs(it):
            el = []
            k = 0
            for j, v in enumerate(tmpl):
                if j in free:
                    el.append(it.inbyte(k))
                    k += 1
                else:
                    el.append(AV.const(sg(v)))
            a = _Arr(el + [AV.const(0)], 'value')
            return it.call_fn(vpv, [_PV(a, 0), _PV(a, len(tmpl))])
        nb = 0
        for (bx, r, it) in absint.explore(P, runs, [[(-128, 127)] * len(free)]):
            nb += 1
            if not (isinstance(r, AV) and r.is_const()):
                return ('box %s: verdict not constant: %r' % (bx, r)), nb
            # all concrete values of the box must have the same reference verdict (boxes are small after the splits the code forced);
            # sample corners and the values the grammar distinguishes
            cands = []
            for (lo, hi) in bx:
                c = set([lo, hi]) | set(sg(x) for x in (38, 60, 62, 59, 35, 0) if lo <= sg(x) <= hi)
                cands.append(sorted(c))
            tot_ = 1
            for (lo, hi) in bx:
                tot_ *= hi - lo + 1
            if tot_ <= 4096:
                cands = [list(range(lo, hi + 1)) for (lo, hi) in bx]      # small box: every value (the entity letters are distinguished by the reference)
            import itertools
            for combo in itertools.product(*cands):
                bs = list(tmpl)
                for pos, v in zip(sorted(free), combo):
                    bs[pos] = v & 0xFF
                if want_of(bs) != bool(r.lo):
                    return ('value %r: code says %s, the attribute-value grammar says %s' % (bytes(bs), bool(r.lo), want_of(bs))), nb
        return None, nb
    ENT = [b'&amp;', b'&lt;', b'&gt;', b'&quot;', b'&apos;', b'&#x27;', b'&#X27;', b'&#39;']
    for L in (0, 1, 2):
        bad, nb = run_template([0] * L, set(range(L)))
        ctx.check(bad is None, R5, 'validate_property_value:all-values-of-%d-bytes' % L, bad or '', vpv.where, detail={'boxes': nb})
    for e in ENT:
        tot, bad = 0, None
        for pre, post in ((b'', b''), (b'a', b'b'), (b'', b'&lt;')):
            t = list(pre + e + post)
            for pos in range(len(pre), len(pre) + len(e)):
                b_, nb = run_template(t, {pos})
                tot += nb
                bad = bad or b_
            # truncations (the tail is cut anywhere): never accepted
            for cut in range(1, len(e)):
                b_, nb = run_template(list(pre + e[:cut]), set())
                tot += nb
                bad = bad or b_
        ctx.check(bad is None, R5, 'validate_property_value:%s:single-byte-variations-and-truncations' % e.decode(), bad or '', vpv.where, detail={'boxes': tot})
    # a free byte right after a complete entity and after a plain byte (the scan continues in the right place)
    for e in (b'&lt;', b'&quot;'):
        bad, nb = run_template(list(e + b'x' + e), {len(e)})
        ctx.check(bad is None, R5, 'validate_property_value:%s-x-%s:middle-byte-free' % (e.decode(), e.decode()), bad or '', vpv.where, detail={'boxes': nb})
    pp = P.fn(ANON + 'parse_properties')
    vcalls = [i for i in pp.calls() if pp.bcallee(i) == ANON + 'validate_property_value']
    g_v = q.call_gate(pp, lambda i: pp.bcallee(i) == ANON + 'validate_property_value', True)
    vw = [w for w in q.field_writes(pp, 'property_data::value_begin') + q.field_writes(pp, 'property_data::value_end')]
    ctx.check(len(vcalls) >= 1 and len(vw) >= 2 and all(pp.only_through(w, g_v) for w in vw), R5, 'parse_properties:value-recorded-only-if-validated', 'an attribute value is recorded without passing validate_property_value', pp.where)
    for i in vcalls:
        a = pp.args(i)
        rb = [pp.ref_of(pp.N(w)['ch'][-1]) for w in q.field_writes(pp, 'property_data::value_begin')]
        re_ = [pp.ref_of(pp.N(w)['ch'][-1]) for w in q.field_writes(pp, 'property_data::value_end')]
        same = pp.ref_of(a[0]) is not None and pp.ref_of(a[1]) is not None and rb == [pp.ref_of(a[0])] and re_ == [pp.ref_of(a[1])]
        moved = [w for r_ in (pp.ref_of(a[0]), pp.ref_of(a[1])) if r_ for w in q.writes_to(pp, r_) if any(q.between(pp, i, w, v) for v in vw)]
        ctx.check(same and not moved, R5, 'parse_properties:validated-range-is-the-recorded-value', 'the range validated is not the range recorded as the attribute value', pp.loc(i))
    # ---------------- R11 the scheme a URI is white-listed by is the RFC 3986 scheme
    R11 = ctx.rule('C04.R11', 'uri_parser::scheme() takes exactly ALPHA *( ALPHA / DIGIT / "+" / "-" / "." ) (E3: every first byte, every second byte): a scheme cut short or stretched makes '
                              'uri() fail or succeed on other text than the one the white-list expression is shown, and the lenient relative-reference branch takes over')
    from vlib.absint import Cell as _Cell
    sch = P.fn('cppcms::xss::uri_parser::scheme')
    UF = 'f:cppcms::xss::uri_parser::'
    alpha = lambda v: 65 <= v <= 90 or 97 <= v <= 122
    tail_ok = lambda v: alpha(v) or 48 <= v <= 57 or v in (43, 45, 46)
    for mode in ('first', 'second'):
        bad = None
        nb = 0

        def runs(it, mode=mode):
            sg = lambda v: v - 256 if v > 127 else v
            if mode == 'first':
                a = Arr([it.inbyte(0), AV.const(58), AV.const(0)], 'uri')
                n_ = 1
            else:
                a = Arr([AV.const(ord('a')), it.inbyte(0), AV.const(58), AV.const(0)], 'uri')
                n_ = 3
            it.fields = {UF + 'begin_': _Cell(PV(a, 0)), UF + 'end_': _Cell(PV(a, n_)), UF + 'scheme_start_': _Cell(PV(a, 0)), UF + 'scheme_end_': _Cell(PV(a, 0))}
            rv = it.call_fn(sch, [])
            return rv, it.fields[UF + 'begin_'].v, it.fields[UF + 'scheme_start_'].v, it.fields[UF + 'scheme_end_'].v
        for (bx, res, it) in absint.explore(P, runs, [[(-128, 127)]]):
            nb += 1
            rv, bg, ss, se_ = res
            vals = [v & 0xFF for v in range(bx[0][0], bx[0][1] + 1)]
            if not (isinstance(rv, AV) and rv.is_const()):
                bad = bad or ('not decided', bx)
                continue
            for v in vals:
                if mode == 'first':
                    want = (1, 1) if alpha(v) else (0, None)
                else:
                    want = (1, 2) if tail_ok(v) else (1, 1)
                got = (int(bool(rv.lo)), (se_.off if rv.lo else None))
                if got[0] != want[0] or (want[1] is not None and (got[1] != want[1] or bg.off != want[1] or ss.off != 0)):
                    bad = bad or ('byte 0x%02x as %s character: scheme() = %d with the scheme ending at %r, RFC 3986 says %r' % (v, mode, got[0], got[1], want), bx)
        ctx.check(bad is None, R11, 'uri_parser::scheme:%s-character' % mode, bad[0] if bad else '', sch.where, detail={'boxes': nb})
    ctx.floor(R11, 2)
    ctx.floor(R5, 12)
    ctx.floor(R1, 30)
    ctx.floor(R2, 4)
    ctx.floor(R6, 18)
    ctx.floor(R7, 1)
    ctx.floor(R9, 18)
    ctx.notes.append('the anchoring of booster::regex::match itself (PCRE_ANCHORED, "(?:...)\\\\z") is decided by C20.R1')
