"""C04 — XSS filter output contains only white-listed markup and is stable (structural / abstract clauses)."""
from vlib import build, model, q, absint
from vlib.absint import AV, Cell, Out
from vlib.build import AnalysisBroken, REPO

X = 'cppcms::xss::'
ANON = 'cppcms::xss::(anonymous namespace)::'
STAGES = ['split_to_parts', 'parse_part', 'validate_nesting', 'validate_entry_by_rules']


def stage_calls(f):
    out = []
    for i in f.calls():
        sh = q.short_of(f.callee(i))
        if sh in STAGES and (f.bcallee(i) or '').startswith('cppcms::xss::'):
            out.append((sh, i))
    out.sort(key=lambda x: f.point_of(x[1]) and (-f.point_of(x[1])[0], f.point_of(x[1])[1]))
    return out


def run(ctx):
    ctx.explanation = ('Absence of a bypass string in general needs the semantics of tokeniser x nesting x rules for unbounded inputs and is not claimed. Decided: validate and the filter run the same stages in the same order on the same '
                       '(transcoded and charset-validated) byte range; every stage failure reaches `false` / marks the entry invalid; raw copy of an entry is control-dependent on its being valid, invalid entries are removed or pass through the '
                       'escape switch, which is evaluated abstractly for all 256 bytes; the per-entry rule switch is exhaustive over html_data_type; only whole-string regex matching is used.')
    ctx.units = ['src/xss.cpp']
    P = model.Program(build.extract([REPO + '/src/xss.cpp'], include_re='^/repo/(src|private|cppcms)/'))
    ctx.stats['functions'] = len(P.fns)
    R1 = ctx.rule('C04.R1', 'validate and validate_and_filter_if_invalid run the same stages in the same order on the transcoded, charset-validated range; stage failures are never ignored')
    R2 = ctx.rule('C04.R2', 'filter output: an entry is copied verbatim only if it is not invalid; invalid entries are removed or escaped')
    R3 = ctx.rule('C04.R3', 'the escape switch neutralises < > & " for every byte (abstract interpretation) and copies every other byte')
    R6 = ctx.rule('C04.R6', 'validate_entry_by_rules handles every html_data_type explicitly; invalid / unparsed entries and unknown kinds are rejected; tags and attributes consult the white-list')
    R9 = ctx.rule('C04.R9', 'tag names are compared exactly when nesting is validated: ascii_streq is true iff both names have the same length and agree byte for byte (XHTML) / up to ASCII case (HTML) (E3, names of 0..3 bytes)')
    R7 = ctx.rule('C04.R7', 'attribute / URI expressions are matched as whole strings (regex_match only)')

    va = [f for f in P.by_bname.get(X + 'validate', []) if len(f.params) == 3 and 'const char *' in f.id]
    fi = P.by_bname.get(X + 'validate_and_filter_if_invalid', [])
    ctx.require(len(va) == 1 and len(fi) == 1, 'C04: validate / validate_and_filter_if_invalid not found')
    va, fi = va[0], fi[0]
    seqs = {}
    for f in (va, fi):
        sc = stage_calls(f)
        seq = [s for s, _ in sc]
        seqs[f.short] = seq
        ctx.check(seq == STAGES, R1, '%s:stages-in-order' % f.short, 'stage sequence is %s' % seq, f.where)
        if seq != STAGES:
            continue
        calls = dict(sc)
        # each later stage is dominated by the earlier one
        def anchor(s_):
            L_ = q.enclosing_loops(f, calls[s_])
            return f.N(L_[0])['cond'] if L_ else calls[s_]      # a per-entry stage is represented by its loop (which may run zero times)
        for a, b in zip(STAGES, STAGES[1:]):
            ctx.check(q.before(f, anchor(a), anchor(b)), R1, '%s:%s-before-%s' % (f.short, a, b), 'stage %s can run without %s' % (b, a), f.loc(calls[b]))
        # per-entry stages run over the whole vector
        for s in ('parse_part', 'validate_entry_by_rules'):
            L = q.enclosing_loops(f, calls[s])
            ok = bool(L)
            if ok:
                n = f.N(L[0])
                cond = f.N(f.strip(n['cond']))
                init0 = False
                init = f.strip(n['init']) if n.get('init', -1) >= 0 else None
                if init is not None and f.N(init)['k'] == 'DeclStmt':
                    init0 = f.const_value(f.N(init)['decls'][0].get('init')) == 0
                ok = cond.get('op') == '<' and init0 and not [j for j in f.walk(n['body']) if f.N(j)['k'] in ('BreakStmt', 'ContinueStmt')]
                bound = f.ref_of(cond['ch'][1])
                bd = f.defs_of_var(bound) if bound else []
                ok = ok and len(bd) == 1 and bd[0][1] is not None and any(q.short_of(f.callee(j)) == 'size' for j in f.calls(bd[0][1]))
            ctx.check(ok, R1, '%s:%s-on-every-entry' % (f.short, s), 'stage %s does not visit every entry' % s, f.loc(calls[s]))
        # the range tokenised is the range that was transcoded / charset-validated
        bp, ep = q.param_by_index(f, 0), q.param_by_index(f, 1)
        sp = calls['split_to_parts']
        ctx.check(f.ref_of(f.args(sp)[0]) == bp and f.ref_of(f.args(sp)[1]) == ep, R1, '%s:tokenises-begin-end' % f.short, 'tokeniser is not run on [begin,end)', f.loc(sp))
        tu = [i for i in f.calls() if (f.bcallee(i) or '') == 'booster::locale::conv::to_utf' and f.point_of(i)]
        ctx.check(len(tu) >= 1, R1, '%s:transcodes-non-ascii-compatible-input' % f.short, 'no transcoding branch', f.where)
        for k, t in enumerate(tu):
            for par, nm in ((bp, 'begin'), (ep, 'end')):
                ws = [w for w in f.all_nodes() if f.N(w)['k'] == 'BinaryOperator' and f.N(w).get('op') == '=' and f.ref_of(f.N(w)['ch'][0]) == par and f.point_of(w)]
                # the new value derives from a local std::string (the transcoded / filtered buffer), directly or through the other rebased pointer
                ws = [w for w in ws if any(r.startswith('v:') for r in f.subtree_refs(f.N(w)['ch'][1])) or bp in f.subtree_refs(f.N(w)['ch'][1])]
                pt = f.point_of(t)
                cut = q.blocks_of(f, ws) | f.abnormal_blocks()
                same = any(f.point_of(w)[0] == pt[0] and f.point_of(w)[1] > pt[1] for w in ws)
                cut.discard(pt[0])
                reach = f.reachable_blocks(start=pt[0], cut_blocks=cut, with_catch=False)
                ctx.check(same or f.point_of(sp)[0] not in reach, R1, '%s:to_utf#%d:%s-rebased-onto-transcoded-buffer' % (f.short, k, nm),
                          'after transcoding, the tokeniser still receives the original (still encoded) %s pointer' % nm, f.loc(t))
        # charset validation precedes tokenising whenever an encoding is configured
        g_enc = q.empty_gate(f, lambda i, f=f: any(r.startswith('v:') for r in f.subtree_refs(i)))
        vcalls = [i for i in f.calls() if (f.bcallee(i) or '') in ('cppcms::encoding::valid', 'cppcms::encoding::validate_or_filter')]
        reach = f.reachable_blocks(cut_edges=g_enc, cut_blocks=q.blocks_of(f, vcalls), with_catch=False)
        ctx.check(bool(vcalls) and f.point_of(sp)[0] not in reach, R1, '%s:charset-validated-before-tokenising' % f.short, 'input of a configured encoding can reach the tokeniser without charset validation', f.loc(sp))
        for i in vcalls:
            a = f.args(i)
            ctx.check(f.ref_of(a[1]) == bp and f.ref_of(a[2]) == ep, R1, '%s:%s-on-begin-end#%d' % (f.short, q.short_of(f.callee(i)), i), 'charset validation runs on a different range than the tokeniser', f.loc(i))
    # stage failures: validate -> return false ; filter -> valid=false (+ entry marked)
    inv = va.gate_edges(lambda atom, pol: va.N(atom)['k'] == 'BinaryOperator' and va.N(atom).get('op') == '==' and any(r.endswith('::invalid_data') for r in va.subtree_refs(atom)) and pol is True)
    rule_fail = q.call_gate(va, lambda i: q.short_of(va.callee(i)) == 'validate_entry_by_rules', False)
    enc_fail = q.call_gate(va, lambda i: (va.bcallee(i) or '') == 'cppcms::encoding::valid', False)
    n_f = 0
    for (b, s, lab, tag) in list(inv) + list(rule_fail) + list(enc_fail):
        n_f += 1
        rets = [e for e in va.blocks[s].elems if 'n' in e and va.N(e['n'])['k'] == 'ReturnStmt' and va.const_value(va.ret_value(e['n'])) == 0]
        ctx.check(bool(rets), R1, 'validate:failure-edge#%d->return-false' % n_f, 'a failed stage does not make validate() return false', va.loc(va.blocks[b].term) if va.blocks[b].term else va.where)
    ctx.check(len(inv) >= 3 and len(rule_fail) >= 1 and len(enc_fail) >= 2, R1, 'validate:all-failure-tests-present', 'expected 3 invalid_data tests, the rule test and 2 charset tests (%d,%d,%d)' % (len(inv), len(rule_fail), len(enc_fail)), va.where)
    validv = [d['ref'] for i in fi.all_nodes() if fi.N(i)['k'] == 'DeclStmt' for d in fi.N(i)['decls'] if d['name'] == 'valid']
    ctx.require(validv, 'C04.R1: flag `valid` not found in the filter')
    inv2 = fi.gate_edges(lambda atom, pol: fi.N(atom)['k'] == 'BinaryOperator' and fi.N(atom).get('op') == '==' and any(r.endswith('::invalid_data') for r in fi.subtree_refs(atom)) and pol is True)
    rf2 = q.call_gate(fi, lambda i: q.short_of(fi.callee(i)) == 'validate_entry_by_rules', False)
    vf2 = q.call_gate(fi, lambda i: (fi.bcallee(i) or '') == 'cppcms::encoding::validate_or_filter', False)
    out_loop = [L for L in q.loops(fi) if any(q.short_of(fi.callee(j)) == 'append' for j in fi.calls(L))]
    n_f = 0
    for (b, s, lab, tag) in list(inv2) + list(rf2) + list(vf2):
        if out_loop and fi.blocks[b].term is not None and fi.contains(out_loop[-1], fi.blocks[b].term):
            continue        # the test inside the output loop selects the emission, it is not a validation stage
        n_f += 1
        ws = [e['n'] for e in fi.blocks[s].elems if 'n' in e and fi.N(e['n'])['k'] == 'BinaryOperator' and fi.N(e['n']).get('op') == '=' and fi.ref_of(fi.N(e['n'])['ch'][0]) == validv[0] and fi.const_value(fi.N(e['n'])['ch'][1]) == 0]
        ctx.check(bool(ws), R1, 'filter:failure-edge#%d->valid=false' % n_f, 'a failed stage leaves `valid` true: invalid input would be returned unchanged', fi.loc(fi.blocks[b].term) if fi.blocks[b].term else fi.where)
    succ = q.nonfalse_returns(fi)
    g_valid = fi.gate_edges(lambda atom, pol: fi.ref_of(atom) == validv[0] and pol is True)
    ctx.check(len(succ) == 1 and fi.only_through(succ[0], g_valid) and not [w for w in q.writes_to(fi, q.param_by_index(fi, 3)) if q.before(fi, w, succ[0])], R1,
              'filter:true-only-if-valid-and-output-untouched', 'filter reports valid input without all stages passing / touches the output', fi.where)
    # a failed rule check invalidates the entry and its pair
    mark = [w for w in fi.all_nodes() if fi.N(w)['k'] == 'BinaryOperator' and fi.N(w).get('op') == '=' and any(r.endswith('::invalid_data') for r in fi.subtree_refs(fi.N(w)['ch'][1])) and fi.point_of(w)]
    ctx.check(len(mark) == 2 and all(fi.only_through(w, rf2) for w in mark), R1, 'filter:rule-failure-marks-entry-and-pair-invalid', 'an entry failing the rules (or its partner tag) is not marked invalid', fi.where)

    # ---------------- R2
    ctx.require(out_loop, 'C04.R2: output loop not found')
    L = out_loop[-1]
    aps = [i for i in fi.calls(L) if q.short_of(fi.callee(i)) == 'append']
    g_ok = fi.gate_edges(lambda atom, pol: fi.N(atom)['k'] == 'BinaryOperator' and fi.N(atom).get('op') == '==' and any(r.endswith('::invalid_data') for r in fi.subtree_refs(atom)) and pol is False and
                         fi.blocks and True)
    g_ok = [g for g in g_ok if fi.blocks[g[0]].term is not None and fi.contains(L, fi.blocks[g[0]].term)]
    ctx.check(len(aps) == 1 and fi.only_through(aps[0], g_ok), R2, 'filter:raw-copy-only-for-valid-entries', 'an invalid entry can be copied to the output verbatim', fi.loc(aps[0]) if aps else fi.where)
    if aps:
        a = fi.args(aps[0])
        # append(begin-of-entry, end-of-entry - begin-of-entry), directly on the entry's fields or through locals initialised from them
        r0 = set(model.strip_targs(r).rsplit('::', 2)[-2] + '::' + model.strip_targs(r).rsplit('::', 1)[-1] for r in q.deep_refs(fi, a[0]) if r.startswith('f:'))
        r1 = set(model.strip_targs(r).rsplit('::', 2)[-2] + '::' + model.strip_targs(r).rsplit('::', 1)[-1] for r in q.deep_refs(fi, a[1]) if r.startswith('f:'))
        from vlib import lin as _lin
        S_ = _lin.Symb(fi)
        l0, l1 = S_.lin(a[0]), S_.lin(a[1])
        # length == X - Y with Y the very expression that is passed as the start, nothing added or subtracted
        shape = l1.c == 0 and sorted(l1.t.values()) == [-1, 1] and l0.c == 0 and list(l0.t.values()) == [1] and l1.t.get(list(l0.t)[0]) == -1
        ok = shape and 'entry::begin' in r0 and 'entry::end' not in r0 and {'entry::begin', 'entry::end'} <= r1
        ctx.check(ok, R2, 'filter:raw-copy-is-the-entry-range', 'copied range is not [entry.begin, entry.end)', fi.loc(aps[0]))
    sw = [j for j in fi.walk(L) if fi.N(j)['k'] == 'SwitchStmt']
    ctx.require(len(sw) == 1, 'C04.R2: escape switch not found')
    g_bad = [g for g in fi.gate_edges(lambda atom, pol: fi.N(atom)['k'] == 'BinaryOperator' and fi.N(atom).get('op') == '==' and any(r.endswith('::invalid_data') for r in fi.subtree_refs(atom)) and pol is True)
             if fi.blocks[g[0]].term is not None and fi.contains(L, fi.blocks[g[0]].term)]
    emits = [i for i in fi.calls(sw[0]) if fi.N(i)['k'] == 'CXXOperatorCallExpr' and fi.N(i).get('op') == '+=']
    ctx.check(len(emits) >= 5 and all(fi.only_through(i, g_bad) for i in emits), R2, 'filter:escape-branch-only-for-invalid-entries', 'escaped emission reachable for valid entries', fi.loc(sw[0]))
    # a valid entry is never dropped: within one iteration, without taking an `entry is invalid` edge, the next iteration cannot be
    # reached except through the verbatim copy
    Ln = fi.N(L)
    cb = fi.point_of(Ln['cond'])[0] if Ln.get('cond', -1) is not None and Ln.get('cond', -1) >= 0 and fi.point_of(Ln['cond']) else None
    okd = cb is not None and bool(aps)
    if okd:
        starts = [s_ for (s_, lab) in fi.succ_edges(cb) if lab is True]
        inc_b = fi.point_of(Ln['inc'])[0] if Ln.get('inc', -1) is not None and Ln.get('inc', -1) >= 0 and fi.point_of(Ln['inc']) else cb
        for s_ in starts:
            reach = fi.reachable_blocks(start=s_, cut_edges=[e for e in g_bad if len(e) == 4], cut_blocks=(q.blocks_of(fi, aps) | {cb}) - {s_})
            okd = okd and inc_b not in reach and (cb not in reach or cb == s_)
    ctx.check(okd, R2, 'filter:remove-mode-drops-only-invalid-entries', 'remove mode can drop a valid entry', fi.where)

    # ---------------- R3  (abstract interpretation of the escape switch for every byte)
    cvar = None
    for j in fi.walk(L):
        if fi.N(j)['k'] == 'DeclStmt':
            for d in fi.N(j)['decls']:
                if d['name'] == 'c':
                    cvar = d['ref']
    outv = fi.ref_of(fi.N(emits[0])['ch'][1]) if emits else None
    ctx.require(cvar and outv, 'C04.R3: escape switch variables not found')
    ENT = {ord('<'): b'&lt;', ord('>'): b'&gt;', ord('&'): b'&amp;', ord('"'): b'&quot;'}
    bad = []
    for v in range(256):
        it = absint.Interp(P, [])
        o = Out('filtered')
        env = {cvar: Cell(AV.const(v - 256 if v > 127 else v)), outv: Cell(o)}
        try:
            it.exec_stmt(fi, sw[0], env)
        except absint._Break:
            pass
        got = bytes((e.lo & 0xFF) for e in o.items)
        exp = ENT.get(v, bytes([v]))
        if got != exp:
            bad.append((v, got))
    ctx.check(not bad, R3, 'filter:escape-switch:per-byte', ('byte %02X is emitted as %r' % bad[0]) if bad else '', fi.loc(sw[0]), detail={'bytes': 256})

    # ---------------- R6
    ve = P.fn(ANON + 'validate_entry_by_rules')
    en = [e for e in P.enums.values() if e['name'].endswith('html_data_type')]
    ctx.require(en, 'C04.R6: html_data_type enum not found')
    sws = [j for j in ve.walk() if ve.N(j)['k'] == 'SwitchStmt']
    top = sws[0]
    labels = set()
    for j in ve.walk(ve.N(top)['body']):
        if ve.N(j)['k'] == 'CaseStmt' and ve.enclosing(j, ('SwitchStmt',)) == top:
            labels.add(ve.const_value(ve.N(j)['lhs']))
    for e in en[0]['enumerators']:
        ctx.check(e['value'] in labels, R6, 'validate_entry_by_rules:case-%s' % e['name'], 'entry kind %s is not handled explicitly' % e['name'], ve.loc(top))
    dflt = [j for j in ve.walk(ve.N(top)['body']) if ve.N(j)['k'] == 'DefaultStmt' and ve.enclosing(j, ('SwitchStmt',)) == top]
    ok = len(dflt) == 1 and any(ve.N(j)['k'] == 'ReturnStmt' and ve.const_value(ve.ret_value(j)) == 0 for j in ve.walk(dflt[0]))
    ctx.check(ok, R6, 'validate_entry_by_rules:default-rejects', 'unknown entry kinds are accepted', ve.loc(top))
    val = {e['name']: e['value'] for e in en[0]['enumerators']}
    for nm in ('invalid_data', 'html_tag'):
        cs = [j for j in ve.walk(ve.N(top)['body']) if ve.N(j)['k'] == 'CaseStmt' and ve.const_value(ve.N(j)['lhs']) == val[nm] and ve.enclosing(j, ('SwitchStmt',)) == top]
        ok = len(cs) == 1
        if ok:
            sub = ve.N(cs[0])['sub']
            while ve.N(sub)['k'] == 'CaseStmt':
                sub = ve.N(sub)['sub']
            ok = ve.N(sub)['k'] == 'ReturnStmt' and ve.const_value(ve.ret_value(sub)) == 0
        ctx.check(ok, R6, 'validate_entry_by_rules:%s-rejected' % nm, '%s entries are accepted' % nm, ve.loc(top))
    succ = q.nonfalse_returns(ve)
    for nm, callee in (('valid_tag', 'valid_tag'), ('valid_entity', 'valid_entity')):
        cs = [i for i in ve.calls() if q.short_of(ve.callee(i)) == callee]
        ctx.check(len(cs) == 1, R6, 'validate_entry_by_rules:consults-%s' % nm, 'white-list %s is not consulted' % nm, ve.where)
    vp = [i for i in ve.calls() if q.short_of(ve.callee(i)) in ('valid_property', 'valid_boolean_property')]
    lp = q.loops(ve)
    ok = len(vp) == 2 and len(lp) == 1 and all(ve.contains(lp[0], i) for i in vp)
    if ok:
        # every attribute goes through exactly one of the two checks, failure returns false
        for i in vp:
            g = q.call_gate(ve, lambda j, i=i: j == i, False)
            ok = ok and all(any('n' in e and ve.N(e['n'])['k'] == 'ReturnStmt' and ve.const_value(ve.ret_value(e['n'])) == 0 for e in ve.blocks[s].elems) for (_, s, _, _) in [e for e in g if len(e) == 4])
        body = ve.N(lp[0])['body']
        pb = ve.point_of(body) if ve.point_of(body) else None
        esc = [j for j in ve.walk(body) if ve.N(j)['k'] in ('ContinueStmt', 'BreakStmt')]
        ok = ok and not esc
    ctx.check(ok, R6, 'validate_entry_by_rules:every-attribute-checked', 'an attribute can skip valid_property / valid_boolean_property', ve.where)
    dup = [i for i in ve.calls() if q.short_of(ve.callee(i)) == 'find' and lp and ve.contains(lp[0], i)]
    ctx.check(len(dup) == 2, R6, 'validate_entry_by_rules:duplicate-attributes-rejected', 'duplicate attributes are not detected', ve.where)
    inv_tag = [j for j in ve.walk() if ve.N(j)['k'] == 'CaseStmt' and any(r.endswith('rules::invalid_tag') for r in ve.subtree_refs(ve.N(j)['lhs']))]
    ok = len(inv_tag) == 1 and ve.N(ve.N(inv_tag[0])['sub'])['k'] == 'ReturnStmt' and ve.const_value(ve.ret_value(ve.N(inv_tag[0])['sub'])) == 0
    ctx.check(ok, R6, 'validate_entry_by_rules:unlisted-tag-rejected', 'a tag that is not on the white-list is accepted', ve.where)

    # ---------------- R7
    xf = [f for f in P.fns.values() if f.file.endswith('/src/xss.cpp')]
    bad = [(f, i) for f in xf for i in f.calls() if (f.bcallee(i) or '') in ('booster::regex_search', 'booster::regex::search')]
    nm = sum(1 for f in xf for i in f.calls() if (f.bcallee(i) or '') == 'booster::regex_match')
    ctx.check(not bad and nm >= 2, R7, 'xss.cpp:regex_match-only', 'a substring search is used to validate attribute values / URIs', bad[0][0].loc(bad[0][1]) if bad else xf[0].file, detail={'regex_match_calls': nm})
    uv = [f for f in xf if 'uri_validator' in (f.record or '') and f.short == 'operator()']
    for f in uv:
        rm = [i for i in f.calls() if (f.bcallee(i) or '') == 'booster::regex_match']
        ctx.check(len(rm) >= 1, R7, 'uri_validator:scheme-whole-match', 'URI scheme is not matched as a whole', f.where)

    # ---------------- R9 ascii_streq exact (E3) and used by validate_nesting for every closing tag
    from vlib.absint import Arr, PV
    se = P.fn(ANON + 'ascii_streq')
    low = lambda v: v + 32 if 65 <= v <= 90 else v
    REPS = [0x41, 0x61, 0x5A, 0x7A, 0x40, 0x5B, 0x60, 0x7B, 0x30, 0x2D, 0xC1, 0xE1]
    for xh in (1, 0):
        for (la, lb) in ((0, 0), (1, 1), (2, 2), (3, 3), (0, 1), (1, 0), (1, 2), (2, 1), (2, 3), (3, 1)):
            bad = None
            nb = 0
            for rep in (REPS if la and la == lb else REPS[:2]):
                for pos in (range(lb) if la == lb and lb else [None]):
                    left = [rep] * la

                    def runs(it, left=left, lb=lb, pos=pos, rep=rep, xh=xh):
                        sg = lambda v: v - 256 if v > 127 else v
                        a = Arr([AV.const(sg(v)) for v in left] + [AV.const(0)], 'left')
                        right = [AV.const(sg(rep))] * lb
                        if pos is not None:
                            right[pos] = it.inbyte(0)
                        b = Arr(right + [AV.const(0)], 'right')
                        return it.call_fn(se, [PV(a, 0), PV(a, len(left)), PV(b, 0), PV(b, lb), AV.const(xh)])
                    for (bx, r, it) in absint.explore(P, runs, [[(-128, 127)]] if pos is not None else [[]]):
                        nb += 1
                        if pos is None:
                            want = {la == lb}
                        else:
                            vals = [v & 0xFF for v in range(bx[0][0], bx[0][1] + 1)]
                            want = set(((v == rep) if xh else (low(v) == low(rep))) for v in vals)
                        if not (isinstance(r, AV) and r.is_const()) or want != {bool(r.lo)}:
                            bad = bad or ('left=%r right varies at %s in %s' % (left, pos, bx), r)
            ctx.check(bad is None, R9, 'ascii_streq:%s:len=%d/%d' % ('xhtml' if xh else 'html', la, lb), ('%s -> %r' % bad) if bad else '', se.where, detail={'boxes': nb})
    vn = P.fn(ANON + 'validate_nesting')
    cmpc = [i for i in vn.calls() if vn.bcallee(i) == ANON + 'ascii_streq']
    pairw = [w for w in q.field_writes(vn, 'tag_data::pair') if True]
    g_eq = q.call_gate(vn, lambda i: vn.bcallee(i) == ANON + 'ascii_streq', True)      # also through a one-line predicate helper (seen through by cond_facts)
    ctx.check(bool(g_eq) and bool(pairw) and all(vn.only_through(w, g_eq) for w in pairw), R9, 'validate_nesting:pairing-only-on-equal-names', 'a closing tag is paired with an opening tag without the name comparison', vn.where)
    # pairing is mutual: where an opening and a closing tag are paired, each one records the index of the other
    def index_of_target(w):
        """index variable of the element whose `pair` is written: parsed[k].tag.pair -> k; cur.tag.pair with entry &cur = parsed[i] -> i"""
        lhs = vn.N(w)['ch'][0]
        subs = [x for x in vn.walk(lhs) if vn.N(x)['k'] == 'CXXOperatorCallExpr' and vn.N(x).get('op') == '[]' and len(vn.N(x)['ch']) == 3]
        if subs:
            return vn.ref_of(vn.N(subs[0])['ch'][2])
        for r in [r for r in vn.subtree_refs(lhs) if r.startswith('v:')]:
            for i_ in vn.all_nodes():
                if vn.N(i_)['k'] == 'DeclStmt':
                    for d in vn.N(i_)['decls']:
                        if d['ref'] == r and d.get('isref') and d.get('init') is not None:
                            subs = [x for x in vn.walk(d['init']) if vn.N(x)['k'] == 'CXXOperatorCallExpr' and vn.N(x).get('op') == '[]' and len(vn.N(x)['ch']) == 3]
                            if subs:
                                return vn.ref_of(vn.N(subs[0])['ch'][2])
        return None
    byblock = {}
    for w in pairw:
        byblock.setdefault(vn.point_of(w)[0], []).append(w)
    okm = bool(byblock)
    for b_, ws in sorted(byblock.items()):
        rel = set((index_of_target(w), vn.ref_of(vn.N(w)['ch'][1])) for w in ws)
        okm = okm and len(rel) == 2 and None not in [x for pr in rel for x in pr] and all((b2, a2) in rel for (a2, b2) in rel) and all(a2 != b2 for (a2, b2) in rel)
    ctx.check(okm, R9, 'validate_nesting:pairing-is-mutual', 'a paired tag does not record the index of its partner (the filter then keeps one end of a rejected pair)', vn.where)
    ctx.floor(R1, 30)
    ctx.floor(R2, 4)
    ctx.floor(R6, 18)
    ctx.floor(R7, 1)
    ctx.floor(R9, 18)
    ctx.notes.append('the anchoring of booster::regex::match itself (PCRE_ANCHORED, "(?:...)\\\\z") is decided by C20.R1')
