"""C18 — a crash while saving a file session never yields a corrupt session (load accepts only consistent files)."""
from vlib import build, model, q, lockset
from vlib.build import AnalysisBroken, REPO
from rules.C05 import load

FS = 'cppcms::sessions::session_file_storage'
TSZ = {'long': 8, 'unsigned long': 8, 'int': 4, 'unsigned int': 4, 'long long': 8, 'unsigned long long': 8, 'short': 2, 'unsigned short': 2, 'char': 1}


def out_target(f, a):
    """variable whose address is passed as `a` (through casts / &x / &v.front())"""
    s = f.strip(a)
    while f.N(s)['k'] in ('UnaryOperator', 'CStyleCastExpr', 'CXXReinterpretCastExpr', 'CXXStaticCastExpr', 'ImplicitCastExpr'):
        s = f.strip(f.N(s)['ch'][0])
    n = f.N(s)
    if n['k'] == 'CXXMemberCallExpr' and q.short_of(f.callee(s)) in ('front', 'data'):
        return f.ref_of(f.obj(s))
    return n.get('ref')


def run(ctx):
    ctx.explanation = ('A torn file is harmless iff load accepts a file only when header and data agree. Decided structurally: success of read_from_file is gated by '
                       'every short-read test, the deadline test and the CRC comparison computed over exactly the bytes read; writer and reader agree on the header layout; '
                       'all file accesses happen inside the lifetime of a locked_file for that sid; unlink happens only on the failure edges.')
    P = load(ctx, ['src/session_posix_file_storage.cpp'])
    R1 = ctx.rule('C18.R1', 'read_from_file: success and out-parameters only past every short-read test, the deadline test and crc == CRC32(data read)')
    R2 = ctx.rule('C18.R2', 'writer header layout == reader read sequence; CRC and size describe exactly the bytes written; header precedes data')
    R3 = ctx.rule('C18.R3', 'read/save/timestamp/unlink only inside the lifetime of a locked_file; the lock is taken in its constructor and released in its destructor')
    R5 = ctx.rule('C18.R5', 'read_all / write_all transfer exactly n bytes or fail, and terminate: true only when the count reached 0; each turn of the loop either returns, retries after EINTR, or subtracts the positive result of the system call; a result <= 0 that is not EINTR fails (a truncated file - the crash state - ends the read with false instead of spinning)')
    R6 = ctx.rule('C18.R6', 'cross-process mode (file_lock_): the constructor hands out a descriptor only after an exclusive fcntl lock was obtained on it and the locked file is still the one the name refers to (same inode and device); otherwise the descriptor is closed and reset')
    R4 = ctx.rule('C18.R4', 'files are unlinked only on the failure edge of load / an expired timestamp in gc, and gc only touches 32-hex-digit names')

    rf = P.fn(FS + '::read_from_file')
    reads = [i for i in rf.calls() if rf.bcallee(i) == FS + '::read_all']
    ctx.require(len(reads) >= 4, 'C18.R1: expected >=4 read_all calls in read_from_file, found %d' % len(reads))
    targets = [out_target(rf, rf.args(i)[1]) for i in reads]
    succ = q.nonfalse_returns(rf)
    outs = [q.param_by_index(rf, 1), q.param_by_index(rf, 2)]
    sites = [('return-true', r) for r in succ]
    for o in outs:
        sites += [('out:' + o.split('@')[0][2:], w) for w in q.writes_to(rf, o)]
    ctx.require(len(sites) >= 3, 'C18.R1: success sites not found')
    hdr_reads = reads[:3]
    data_reads = reads[3:]
    for k, rd in enumerate(hdr_reads):
        g = q.call_gate(rf, lambda i, rd=rd: i == rd, True)
        for kind, s in sites:
            ctx.check(rf.only_through(s, g), R1, 'read_from_file:%s:after-header-read#%d' % (kind, k), 'reachable although header field #%d was not completely read' % k, rf.loc(s))
    tvar = targets[0]

    def fresh(atom, pol):
        n = rf.N(atom)
        if n['k'] != 'BinaryOperator' or n.get('op') not in ('<', '<=', '>', '>='):
            return False
        l, r = n['ch']
        lt, rt = any(rf.callee(j) == 'time' for j in rf.calls(l)), any(rf.callee(j) == 'time' for j in rf.calls(r))
        if rt and tvar in rf.subtree_refs(l):
            return (n['op'] in ('<', '<=') and pol is False) or (n['op'] in ('>', '>=') and pol is True)
        if lt and tvar in rf.subtree_refs(r):
            return (n['op'] in ('>', '>=') and pol is False) or (n['op'] in ('<', '<=') and pol is True)
        return False
    g_fresh = rf.gate_edges(fresh)
    crcvar, sizevar = targets[1], targets[2]
    realcrc = set()
    for i in rf.all_nodes():
        if rf.N(i)['k'] == 'DeclStmt':
            for d in rf.N(i)['decls']:
                # the computed CRC: a local whose (only) value is crc_calc.checksum() itself - not a mixture with the stored one
                if d.get('init') is not None and rf.N(rf.strip(d['init']))['k'] == 'CXXMemberCallExpr' and rf.bcallee(rf.strip(d['init'])) == 'cppcms::impl::crc32_calc::checksum' and len(rf.defs_of_var(d['ref'])) == 1:
                    realcrc.add(d['ref'])

    def crc_ok(atom, pol):
        n = rf.N(atom)
        if n['k'] != 'BinaryOperator' or n.get('op') not in ('!=', '=='):
            return False
        refs = rf.subtree_refs(atom)
        has_real = bool(refs & realcrc) or any(rf.bcallee(j) == 'cppcms::impl::crc32_calc::checksum' for j in rf.calls(atom))
        return crcvar in refs and has_real and ((n['op'] == '!=' and pol is False) or (n['op'] == '==' and pol is True))
    g_crc = rf.gate_edges(crc_ok)
    for kind, s in sites:
        ctx.check(rf.only_through(s, g_fresh), R1, 'read_from_file:%s:after-deadline-test' % kind, 'reachable for an expired record', rf.loc(s))
        ctx.check(rf.only_through(s, g_crc), R1, 'read_from_file:%s:after-crc-match' % kind, 'reachable although stored and computed CRC differ', rf.loc(s))
    # CRC is computed over exactly the bytes read
    pb = [i for i in rf.calls() if rf.bcallee(i) == 'cppcms::impl::crc32_calc::process_bytes']
    ok = len(pb) == 1 and len(data_reads) == 1
    if ok:
        a_r, a_p = rf.args(data_reads[0]), rf.args(pb[0])
        ok = out_target(rf, a_r[1]) == out_target(rf, a_p[0]) and rf.ref_of(a_r[2]) == sizevar and rf.ref_of(a_p[1]) == sizevar
        g_dr = q.call_gate(rf, lambda i: i == data_reads[0], True)
        ok = ok and rf.only_through(pb[0], g_dr)
        cs = [i for i in rf.calls() if rf.bcallee(i) == 'cppcms::impl::crc32_calc::checksum']
        ok = ok and len(cs) == 1 and rf.ref_of(rf.obj(cs[0])) == rf.ref_of(rf.obj(pb[0]))
        # no path with size>0 reaches checksum() without process_bytes
        gz = rf.gate_edges(lambda atom, pol: rf.N(atom)['k'] == 'BinaryOperator' and rf.N(atom).get('op') == '>' and sizevar in rf.subtree_refs(atom) and rf.const_value(rf.N(atom)['ch'][1]) == 0 and pol is False)
        reach = rf.reachable_blocks(cut_edges=gz, cut_blocks=q.blocks_of(rf, pb))
        ok = ok and cs and rf.point_of(cs[0])[0] not in reach
    ctx.check(ok, R1, 'read_from_file:crc-over-exactly-the-bytes-read', 'computed CRC does not cover exactly the `size` bytes read into the buffer', rf.where)
    # the buffer is sized by the header's size field and the returned data are those bytes
    asg = [i for i in rf.calls() if q.short_of(rf.callee(i)) == 'assign' and rf.ref_of(rf.obj(i)) == outs[1]]
    ok = len(asg) == 1 and rf.ref_of(rf.args(asg[0])[1]) == sizevar and out_target(rf, rf.args(asg[0])[0]) == out_target(rf, rf.args(data_reads[0])[1]) if data_reads else False
    ctx.check(ok, R1, 'read_from_file:returns-the-verified-bytes', 'returned data are not the verified buffer', rf.where)
    tw = [w for w in q.writes_to(rf, outs[0])]
    ctx.check(len(tw) == 1 and tvar in rf.subtree_refs(tw[0]), R1, 'read_from_file:returns-stored-deadline', 'returned deadline is not the stored one', rf.where)
    # every success hands out the value: the verified bytes, or the empty string only when the stored size is 0
    from vlib import lin as _lin18
    SYr = _lin18.Symb(rf)
    SZ = _lin18.Lin.atom(sizevar)

    def size_is_zero(atom, pol):
        n_ = rf.N(atom)
        if n_['k'] != 'BinaryOperator' or n_.get('op') not in ('<', '<=', '>', '>=', '==', '!=') or sizevar not in rf.subtree_refs(atom):
            return False
        cons = SYr.rel(atom, pol)
        return bool(cons) and _lin18.implies(cons + [_lin18.ge(SZ)], _lin18.eq(SZ))
    g_zero = rf.gate_edges(size_is_zero)
    clr = [i for i in rf.calls() if q.short_of(rf.callee(i)) in ('clear', 'erase', 'resize') and rf.obj(i) is not None and rf.ref_of(rf.obj(i)) == outs[1]]
    for k_, i in enumerate(clr):
        ctx.check(bool(g_zero) and rf.only_through(i, g_zero), R1, 'read_from_file:empty-value#%d:only-for-stored-size-0' % k_, 'a stored value of non-zero length can be handed out as the empty string', rf.loc(i))
    ev = asg + clr
    for k_, r in enumerate(succ):
        reach = rf.reachable_blocks(cut_blocks=q.blocks_of(rf, ev))
        ctx.check(bool(ev) and rf.point_of(r)[0] not in reach, R1, 'read_from_file:success#%d:value-handed-out' % k_, 'success is reported on a path that leaves the caller\'s string as it was', rf.loc(r))

    # ---------------- R5 transfer loops
    for nm_, sysc in (('read_all', 'read'), ('write_all', 'write')):
        f = P.fn(FS + '::' + nm_)
        cntp = q.param_by_index(f, 2)
        # the remaining count: the parameter itself, or a local that starts as the parameter
        cands = [cntp] + [d['ref'] for i in f.all_nodes() if f.N(i)['k'] == 'DeclStmt' for d in f.N(i)['decls'] if d.get('init') is not None and f.ref_of(d['init']) == cntp]
        lps, cnt = [], cntp
        for cv_ in cands:
            l_ = [L for L in q.loops(f) if cv_ in f.subtree_refs(f.N(L).get('cond', L) if f.N(L).get('cond', -1) not in (None, -1) else L)]
            if l_ and q.writes_to(f, cv_, l_[0]):
                lps, cnt = l_, cv_
        sc = [i for i in f.calls() if f.callee(i) == sysc or (f.callee(i) or '').endswith('::' + sysc)]
        okb = len(lps) == 1 and len(sc) == 1 and f.contains(lps[0], sc[0])
        ctx.check(okb, R5, '%s:one-loop-around-%s' % (nm_, sysc), 'expected one loop on the remaining count around the system call', f.where)
        if not okb:
            continue
        L = lps[0]
        SYf = _lin18.Symb(f)
        N_ = _lin18.Lin.atom(cnt)
        resv = None
        for (d_, v_) in [(d_, v_) for r_ in [x for x in f.subtree_refs(L) if x.startswith('v:')] for (d_, v_) in f.defs_of_var(r_)]:
            if v_ is not None and sc[0] in set(f.walk(v_)):
                resv = [r_ for r_ in f.subtree_refs(d_) if r_.startswith('v:')][0] if f.N(d_)['k'] != 'DeclStmt' else [dd['ref'] for dd in f.N(d_)['decls'] if dd.get('init') is not None and sc[0] in set(f.walk(dd['init']))][0]
        ctx.check(resv is not None and f.ref_of(f.args(sc[0])[2]) == cnt, R5, '%s:asks-for-the-remaining-count:result-kept' % nm_, 'the system call is not asked for the remaining count, or its result is not kept', f.loc(sc[0]))
        if resv is None:
            continue
        RES = _lin18.Lin.atom(resv)

        def done(atom, pol, f=f, SYf=SYf, N_=N_, cnt=cnt):
            n_ = f.N(atom)
            if n_['k'] != 'BinaryOperator' or n_.get('op') not in ('<', '<=', '>', '>=', '==', '!=') or cnt not in f.subtree_refs(atom):
                return False
            cons = SYf.rel(atom, pol)
            return bool(cons) and _lin18.implies(cons, _lin18.ge(N_.scale(-1)))          # n <= 0
        g_done = f.gate_edges(done)
        succ_ = q.nonfalse_returns(f)
        ctx.check(bool(succ_) and bool(g_done) and all(f.only_through(r, g_done) for r in succ_), R5, '%s:true-only-when-nothing-remains' % nm_, 'success is reported while bytes remain', f.where)

        def positive(atom, pol, f=f, SYf=SYf, RES=RES, resv=resv):
            n_ = f.N(atom)
            if n_['k'] != 'BinaryOperator' or n_.get('op') not in ('<', '<=', '>', '>=', '==', '!=') or resv not in f.subtree_refs(atom):
                return False
            cons = SYf.rel(atom, pol)
            return bool(cons) and _lin18.implies(cons, _lin18.ge(RES - _lin18.Lin.const(1)))   # res >= 1
        g_pos = f.gate_edges(positive)
        decs = [w for w in q.writes_to(f, cnt, L)]
        okd = len(decs) == 1
        if okd:
            m_ = f.N(decs[0])
            okd = (m_['k'] == 'CompoundAssignOperator' and m_.get('op') == '-=' and f.ref_of(m_['ch'][1]) == resv) or \
                  (m_['k'] == 'BinaryOperator' and m_.get('op') == '=' and (SYf.lin(m_['ch'][1]) - N_ + RES).is_const() and (SYf.lin(m_['ch'][1]) - N_ + RES).c == 0)
        ctx.check(okd and bool(g_pos) and f.only_through(decs[0], g_pos), R5, '%s:count-reduced-by-the-positive-result' % nm_,
                  'the remaining count is not reduced by exactly the (positive) number of bytes the system call transferred', f.loc(decs[0]) if decs else f.where)
        # a new attempt without progress only after an interrupted call (res < 0 and errno == EINTR)
        def interrupted(atom, pol, f=f):
            n_ = f.N(atom)
            return n_['k'] == 'BinaryOperator' and n_.get('op') == '==' and pol is True and any((f.N(j).get('ref') or '').endswith('EINTR') or f.const_value(j) == 4 for j in f.walk(n_['ch'][1])) and \
                any(f.callee(j) in ('__errno_location',) for j in f.calls(n_['ch'][0]))

        def negative(atom, pol, f=f, SYf=SYf, RES=RES, resv=resv):
            n_ = f.N(atom)
            if n_['k'] != 'BinaryOperator' or n_.get('op') not in ('<', '<=', '>', '>=', '==', '!=') or resv not in f.subtree_refs(atom):
                return False
            cons = SYf.rel(atom, pol)
            return bool(cons) and _lin18.implies(cons, _lin18.ge(RES.scale(-1) - _lin18.Lin.const(1)))   # res <= -1
        g_int, g_neg = f.gate_edges(interrupted), f.gate_edges(negative)
        # from the system call, the next evaluation of the loop condition is reached only through the decrement, or through both retry facts
        pc = f.point_of(f.N(L)['cond'])
        psc = f.last_point_of(sc[0])
        cutd = q.blocks_of(f, decs)
        r1 = f.reachable_blocks(start=psc[0], cut_blocks=cutd, cut_edges=g_int)
        r2 = f.reachable_blocks(start=psc[0], cut_blocks=cutd, cut_edges=g_neg)
        same = psc[0] == pc[0]
        ctx.check(okd and bool(g_int) and bool(g_neg) and (same or (pc[0] not in r1 and pc[0] not in r2)), R5, '%s:no-progress-retry-only-after-EINTR' % nm_,
                  'the loop can go round without transferring anything for a reason other than an interrupted call (end of file / an error would spin for ever)', f.loc(L))
    ctx.floor(R5, 8)

    # ---------------- R2
    sf = P.fn(FS + '::save_to_file')
    ws0 = [i for i in sf.calls() if sf.bcallee(i) == FS + '::write_all']
    ctx.require(ws0, 'C18.R2: save_to_file does not call write_all')
    hdr = None
    hname = out_target(sf, sf.args(ws0[0])[1])
    for i in sf.all_nodes():
        if sf.N(i)['k'] == 'DeclStmt':
            for d in sf.N(i)['decls']:
                if d['ref'] == hname:
                    tn = sf.types[d['t']]
                    cands = [r for r in P.records.values() if r['name'] == tn or (r['file'].endswith('session_posix_file_storage.cpp') and r['line'] == sf.N(i)['l'] - 0 and len(r['fields']) == 3)]
                    cands = cands or [r for r in P.records.values() if r['file'].endswith('session_posix_file_storage.cpp') and sf.line <= r['line'] <= sf.endline and len(r['fields']) >= 2]
                    hdr = cands[0] if cands else None
    ctx.require(hdr is not None, 'C18.R2: type of the header object written first by save_to_file not found')
    wnames = [x['name'] for x in hdr['fields']]
    wsz = [TSZ.get(x['type']) for x in hdr['fields']]
    rsz = [rf.const_value(rf.args(i)[2]) for i in hdr_reads]
    ctx.check(wsz == rsz and None not in wsz, R2, 'header:field-sizes-agree', 'writer header fields %s vs reader reads %s' % (wsz, rsz), sf.where)
    rnames = []
    for t in targets[:3]:
        rnames.append({tvar: 'timeout', crcvar: 'crc', sizevar: 'size'}.get(t))
    # reader uses 1st as deadline, 2nd as crc, 3rd as size (checked by the roles above); writer order is the struct order
    ctx.check(rnames == wnames, R2, 'header:field-roles-agree', 'reader interprets the header fields as %s, writer lays them out as %s' % (rnames, wnames), rf.where)
    ws = [i for i in sf.calls() if sf.bcallee(i) == FS + '::write_all']
    inp = q.param_by_index(sf, 2)
    ok = len(ws) == 2 and q.before(sf, ws[0], ws[1])
    if ok:
        h_t = out_target(sf, sf.args(ws[0])[1])
        hvar = [d for i in sf.all_nodes() if sf.N(i)['k'] == 'DeclStmt' for d in sf.N(i)['decls'] if d['ref'] == h_t]
        ok = bool(hvar) and sf.const_value(sf.args(ws[0])[2]) == sum(wsz) and inp in sf.subtree_refs(sf.args(ws[1])[1]) and inp in sf.subtree_refs(sf.args(ws[1])[2])
    ctx.check(ok, R2, 'save_to_file:header-then-data', 'header (16 bytes) is not written before the data', sf.where)
    pbw = [i for i in sf.calls() if sf.bcallee(i) == 'cppcms::impl::crc32_calc::process_bytes']
    csw = [i for i in sf.calls() if sf.bcallee(i) == 'cppcms::impl::crc32_calc::checksum']
    ok = len(pbw) == 1 and len(csw) == 1 and q.before(sf, pbw[0], csw[0]) and inp in sf.subtree_refs(sf.args(pbw[0])[0]) and inp in sf.subtree_refs(sf.args(pbw[0])[1]) and \
        any(q.short_of(sf.callee(j)) == 'data' for j in sf.calls(sf.args(pbw[0])[0])) and any(q.short_of(sf.callee(j)) == 'size' for j in sf.calls(sf.args(pbw[0])[1]))
    cw = q.field_writes(sf, '::crc')
    ok = ok and len(cw) == 1 and csw[0] in set(sf.walk(cw[0])) and ws and q.before(sf, cw[0], ws[0])
    ctx.check(ok, R2, 'save_to_file:crc-over-the-data-written', 'stored CRC is not CRC32 of the bytes that are written', sf.where)
    # initialiser: timeout <- param, size <- in.size()
    il = [i for i in sf.all_nodes() if sf.N(i)['k'] == 'InitListExpr' and len(sf.N(i)['ch']) == 3]
    ok = len(il) == 1
    if ok:
        c = sf.N(il[0])['ch']
        ok = sf.ref_of(c[0]) == q.param_by_index(sf, 1) or q.param_by_index(sf, 1) in sf.subtree_refs(c[0])
        ok = ok and inp in sf.subtree_refs(c[2]) and any(q.short_of(sf.callee(j)) == 'size' for j in sf.calls(c[2]))
    ctx.check(ok, R2, 'save_to_file:header-fields-from-arguments', 'header timeout/size are not the saved deadline / data length', sf.where)
    g = q.call_gate(sf, lambda i: i in ws, True)
    ctx.check(sf.exit not in sf.reachable_blocks(cut_edges=g, cut_blocks=sf.abnormal_blocks()) if ws else False, R2, 'save_to_file:short-write-reported',
              'a failed write can be reported as success', sf.where)
    for name in ('read_all', 'write_all'):
        f = P.fn(FS + '::' + name)
        sysc = [i for i in f.calls() if f.callee(i) in ('read', 'write')]
        ok = len(sysc) == 1 and all(f.only_through(r, f.gate_edges(lambda atom, pol, f=f: f.N(atom)['k'] == 'BinaryOperator' and f.N(atom).get('op') == '>' and f.const_value(f.N(atom)['ch'][1]) == 0 and pol is False)) for r in q.nonfalse_returns(f))
        ctx.check(ok, R2, '%s:true-only-when-all-bytes-done' % name, 'reports success before n reaches 0', f.where)

    # ---------------- R3
    GU = {FS + '::locked_file': 'X'}
    for name in ('save', 'load', 'remove', 'gc'):
        f = P.fn(FS + '::' + name)
        la = lockset.LockAnalysis(f, guards=GU, lock_of=lambda fn, e: 'session-file-lock')
        ctx.check(len(la.guard_vars) == 1, R3, '%s:one-locked_file' % name, 'expected exactly one locked_file guard', f.where)
        gv = list(la.guard_vars)[0] if la.guard_vars else None
        for k, i in enumerate([i for i in f.calls() if (f.bcallee(i) in (FS + '::read_from_file', FS + '::save_to_file', FS + '::read_timestamp') or f.callee(i) in ('unlink', '::unlink'))]):
            held = la.at(i)
            ctx.check(held is not None and ('session-file-lock', 'X') in held, R3, '%s:%s#%d:under-locked_file' % (name, q.short_of(f.callee(i)), k), 'file accessed outside the lifetime of its locked_file', f.loc(i))
            if f.callee(i) == 'unlink':
                ctx.check(gv in f.subtree_refs(i), R3, '%s:unlink#%d:of-the-locked-file' % (name, k), 'unlink of a name other than the locked file', f.loc(i))
            else:
                fdarg = f.args(i)[0]
                srcs = f.subtree_refs(fdarg)
                okfd = gv in srcs or any(gv in f.subtree_refs(v) for r in srcs for (_, v) in f.defs_of_var(r) if v is not None)
                ctx.check(okfd, R3, '%s:%s#%d:fd-of-the-locked-file' % (name, q.short_of(f.callee(i)), k), 'descriptor does not come from the locked_file', f.loc(i))
    lfc = [f for f in P.fns.values() if f.brecord == FS + '::locked_file' and f.kind == 'ctor']
    lfd = [f for f in P.fns.values() if f.brecord == FS + '::locked_file' and f.kind == 'dtor']
    ctx.require(lfc and lfd, 'C18.R3: locked_file constructor/destructor not found')
    for f in lfc:
        lk = [i for i in f.calls() if f.bcallee(i) == FS + '::lock']
        op = [i for i in f.calls() if f.callee(i) == 'open']
        ctx.check(len(lk) == 1 and bool(op) and all(q.before(f, lk[0], o) for o in op), R3, 'locked_file:lock-before-open', 'file opened before the per-sid lock is taken', f.where)
    for f in lfd:
        ul = [i for i in f.calls() if f.bcallee(i) == FS + '::unlock']
        ctx.check(len(ul) == 1 and q.always_before_exit(f, ul), R3, 'locked_file:unlock-on-every-path', 'destructor can leave the per-sid lock held', f.where)
        cl = [i for i in f.calls() if f.callee(i) == 'close']
        ctx.check(bool(cl) and all(not q.reaches(f, ul[0], c) for c in cl) if ul else False, R3, 'locked_file:close-before-unlock', 'lock released before the descriptor is closed', f.where)
    for name, prim in (('lock', 'pthread_mutex_lock'), ('unlock', 'pthread_mutex_unlock')):
        f = P.fn(FS + '::' + name)
        pc = [i for i in f.calls() if (f.callee(i) or '').startswith('pthread_')]
        ok = len(pc) == 1 and f.callee(pc[0]) == prim and any(f.bcallee(j) == FS + '::sid_to_pos' for j in f.calls(pc[0]))
        ctx.check(ok, R3, '%s:primitive' % name, 'does not map to %s(sid_to_pos(sid))' % prim, f.where)

    # ---------------- R6 fcntl lock of the cross-process mode
    for f in lfc:
        def fcntl_result_var(g, c_):
            for (d_, v_) in [(d_, v_) for r_ in set(x for x in g.subtree_refs(g.body) if x.startswith('v:')) for (d_, v_) in g.defs_of_var(r_)]:
                if v_ is not None and c_ in set(g.walk(v_)):
                    if g.N(d_)['k'] == 'DeclStmt':
                        return [dd['ref'] for dd in g.N(d_)['decls'] if dd.get('init') is not None and c_ in set(g.walk(dd['init']))][0]
                    return g.ref_of(g.N(d_)['ch'][0])
            return None
        # the acquisition site: fcntl(fd_, F_SETLKW, &lock) in the constructor itself, or a helper of the class that does exactly that
        # with the lock type it is given and returns fcntl's result
        fc = [(i, None) for i in f.calls() if f.callee(i) == 'fcntl']
        for i in f.calls():
            g = P.fns.get(f.N(i).get('callee') or '')
            if g is None or g is f or g.brecord != f.brecord or g.entry is None or len(g.params) != 1:
                continue
            gfc = [j for j in g.calls() if g.callee(j) == 'fcntl']
            glt = q.field_writes(g, 'flock::l_type')
            if len(gfc) == 1 and g.const_value(g.args(gfc[0])[1]) == 7 and len(glt) == 1 and g.ref_of(g.N(glt[0])['ch'][1]) == g.params[0]['ref'] and q.before(g, glt[0], gfc[0]):
                grv = fcntl_result_var(g, gfc[0])
                if grv is not None and g.returns() and all(g.ref_of(g.ret_value(r)) == grv for r in g.returns()):
                    fc.append((i, g))
        ctx.check(len(fc) == 1 and (fc[0][1] is not None or f.const_value(f.args(fc[0][0])[1]) == 7), R6, 'locked_file:blocking-fcntl-lock', 'expected one fcntl(fd, F_SETLKW, &lock) in the constructor (directly or through a helper of the class)', f.where)
        if len(fc) != 1:
            continue
        c, via = fc[0]
        g_mode = f.gate_edges(lambda atom, pol, f=f: (model.strip_targs(f.ref_of(atom) or '')).endswith('session_file_storage::file_lock_') and pol is True)
        ctx.check(bool(g_mode) and f.only_through(c, g_mode), R6, 'locked_file:lock-taken-in-file_lock-mode', 'the fcntl lock does not depend on file_lock_', f.loc(c))
        if via is None:
            lt = [w for w in q.field_writes(f, 'flock::l_type')]
            okx = len(lt) == 1 and f.const_value(f.N(lt[0])['ch'][1]) == 1 and q.before(f, lt[0], c)
        else:
            okx = f.const_value(f.args(c)[0]) == 1
        ctx.check(okx, R6, 'locked_file:exclusive-lock', 'the lock requested is not F_WRLCK', f.loc(c))
        resets = [w for w in q.field_writes(f, 'locked_file::fd_') if (f.const_value(f.N(w)['ch'][1]) or 0) < 0]
        closing_helpers = set()
        for i in f.calls():
            g = P.fns.get(f.N(i).get('callee') or '')
            if g is None or g is f or g.brecord != f.brecord or g.entry is None or g.params:
                continue
            gw = [w for w in q.field_writes(g, 'locked_file::fd_') if (g.const_value(g.N(w)['ch'][1]) or 0) < 0]
            if gw and q.always_before_exit(g, gw) and any(g.callee(j) == 'close' for j in g.calls()):
                resets.append(i)
                closing_helpers.add(i)
        rv = fcntl_result_var(f, c)
        g_got = f.gate_edges(lambda atom, pol, f=f, rv=rv, c=c: f.N(atom)['k'] == 'BinaryOperator' and f.N(atom).get('op') in ('<', '!=') and
                             ((rv is not None and f.ref_of(f.N(atom)['ch'][0]) == rv) or f.strip(f.N(atom)['ch'][0]) == c) and f.const_value(f.N(atom)['ch'][1]) == 0 and pol is False)

        def same(field):
            def pred(atom, pol, f=f):
                n_ = f.N(atom)
                if n_['k'] != 'BinaryOperator' or n_.get('op') not in ('!=', '=='):
                    return False
                fr = [model.strip_targs(r).rsplit('::', 1)[-1] for r in f.subtree_refs(atom) if r.startswith('f:')]
                vs = set(r for r in f.subtree_refs(atom) if r.startswith('v:'))
                return set(fr) == {field} and len(vs) == 2 and ((n_['op'] == '!=' and pol is False) or (n_['op'] == '==' and pol is True))
            return f.gate_edges(pred)
        g_ino, g_dev = same('st_ino'), same('st_dev')
        pc = f.last_point_of(c)
        cutb = q.blocks_of(f, resets)
        for nm_, g_ in (('lock-obtained', g_got), ('same-inode', g_ino), ('same-device', g_dev)):
            reach = f.reachable_blocks(start=pc[0], cut_blocks=cutb, cut_edges=g_)
            ctx.check(bool(g_) and bool(resets) and f.exit not in reach, R6, 'locked_file:descriptor-kept-only-if:%s' % nm_,
                      'the constructor can return an open descriptor although the lock was not obtained / the file under the name was replaced meanwhile', f.loc(c))
        for k_, w in enumerate(resets):
            cl = [i for i in f.calls() if f.callee(i) == 'close' and f.point_of(i)[0] == f.point_of(w)[0]]
            ctx.check(bool(cl) or w in closing_helpers, R6, 'locked_file:reset#%d:descriptor-closed' % k_, 'descriptor forgotten without closing it (the fcntl lock of the process on that file stays)', f.loc(w))
    ctx.floor(R6, 7)

    # ---------------- R4
    ld = P.fn(FS + '::load')
    ul = [i for i in ld.calls() if ld.callee(i) == 'unlink']
    g_fail = q.call_gate(ld, lambda i: ld.bcallee(i) == FS + '::read_from_file', False)
    g_ok = q.call_gate(ld, lambda i: ld.bcallee(i) == FS + '::read_from_file', True)
    ctx.check(len(ul) == 1 and ld.only_through(ul[0], g_fail), R4, 'load:unlink-only-on-failed-read', 'a valid session file can be unlinked by load', ld.where)
    ctx.check(all(ld.only_through(r, g_ok) for r in q.nonfalse_returns(ld)), R4, 'load:success-only-on-verified-read', 'load succeeds without a verified read', ld.where)
    gc = P.fn(FS + '::gc')
    ul = [i for i in gc.calls() if gc.callee(i) == 'unlink']
    g_exp = q.call_gate(gc, lambda i: gc.bcallee(i) == FS + '::read_timestamp', False)
    ctx.check(len(ul) == 1 and gc.only_through(ul[0], g_exp), R4, 'gc:unlink-only-if-timestamp-expired', 'gc can unlink a live session', gc.where)

    def name_ok(atom, pol):
        n = gc.N(atom)
        return n['k'] == 'BinaryOperator' and n.get('op') == '!=' and gc.const_value(n['ch'][1]) == 32 and pol is False
    ctx.check(bool(ul) and gc.only_through(ul[0], gc.gate_edges(name_ok)), R4, 'gc:only-32-char-names', 'gc touches files whose name is not a 32-digit sid', gc.where)
    xd = [i for i in gc.calls() if gc.callee(i) == 'isxdigit']
    ctx.check(len(xd) == 1 and bool(q.enclosing_loops(gc, xd[0])), R4, 'gc:hex-digit-filter', 'gc name filter does not test hex digits', gc.where)
    rt = P.fn(FS + '::read_timestamp')
    ra = [i for i in rt.calls() if rt.bcallee(i) == FS + '::read_all']
    stamp = out_target(rt, rt.args(ra[0])[1]) if ra else None

    def live(atom, pol):
        n = rt.N(atom)
        return n['k'] == 'BinaryOperator' and n.get('op') in ('<', '<=') and stamp in rt.subtree_refs(n['ch'][0]) and any(rt.callee(j) == 'time' for j in rt.calls(n['ch'][1])) and pol is False
    succ = q.nonfalse_returns(rt)
    ctx.check(bool(succ) and all(rt.only_through(r, rt.gate_edges(live)) and rt.only_through(r, q.call_gate(rt, lambda i: i in ra, True)) for r in succ), R4,
              'read_timestamp:true-only-if-read-and-live', 'timestamp reported live without reading it / comparing with time()', rt.where)
    rmv = P.fn(FS + '::remove')
    ul = [i for i in rmv.calls() if rmv.callee(i) == 'unlink']
    ctx.check(len(ul) == 1, R4, 'remove:unlinks', 'remove does not unlink the session file', rmv.where)

    # ---------------- R7 the lock really is shared between the worker processes; the checksum covers the whole data
    R7 = ctx.rule('C18.R7', 'multi-process mode without fcntl locks: the mutex table lives in a MAP_SHARED (never MAP_PRIVATE) anonymous mapping sized for all stripes and every mutex in it is created process-shared - a '
                            'private mapping gives every forked worker its own locks; crc32_calc::process_bytes feeds [ptr, ptr+n) to the CRC exactly once, in order, chaining the running value (E3, the CRC primitive '
                            'replaced by a recorder) - a checksum over part of the data lets a torn tail through')
    ct = [g for g in P.fns.values() if g.kind == 'ctor' and (g.record or '').endswith('session_file_storage') and g.body is not None and len(g.params) >= 4]
    ctx.require(len(ct) >= 1, 'C18.R7: session_file_storage constructor not found')
    cf = ct[0]
    mm = [i for i in cf.calls() if (cf.callee(i) or '') in ('mmap', 'mmap64')]
    if len(mm) > 1:     # a probe helper may map memory of its own: the table is the mapping stored in memory_ / locks_
        mm = [i for i in mm if any(cf.contains(w_, i) for w_ in q.field_writes(cf, 'session_file_storage::memory_') + q.field_writes(cf, 'session_file_storage::locks_'))]
    ok7 = len(mm) == 1
    why7 = 'no single mmap of the mutex table'
    if ok7:
        a_ = cf.args(mm[0])
        fl = cf.const_value(a_[3])
        if fl is None and cf.ref_of(a_[3]):
            vals = [cf.const_value(v_) for (d_, v_) in cf.defs_of_var(cf.ref_of(a_[3])) if v_ is not None]
            fl = vals[0] if len(vals) == 1 else None
        ok7 = fl is not None and (fl & 0x01) == 0x01 and (fl & 0x02) == 0 and cf.const_value(a_[4]) == -1
        why7 = 'the mapping that holds the per-session mutexes is not MAP_SHARED (flags %s): after fork every worker has its own copy of the locks' % (hex(fl) if fl is not None else '?')
        if ok7:
            ok7 = any(model.strip_targs(x).endswith('session_file_storage::lock_size_') for x in cf.subtree_refs(a_[1])) and any(cf.N(j)['k'] == 'UnaryExprOrTypeTraitExpr' for j in cf.walk(a_[1]))
            why7 = 'the mapping is not sized lock_size_ mutexes'
        if ok7:
            mk = [i for i in cf.calls() if q.short_of(cf.callee(i) or '') == 'create_mutex']
            def shared_arg(i):
                a1 = cf.args(i)[1]
                if cf.const_value(a1) == 1:
                    return True
                v_ = cf.ref_of(a1)
                # the flag that decided to map the shared table: the mapping exists only where it is true
                return bool(v_) and v_.startswith('v:') and cf.only_through(mm[0], cf.gate_edges(lambda atom, pol: cf.ref_of(atom) == v_ and pol is True))
            shared_mk = [i for i in mk if shared_arg(i) and any(model.strip_targs(x).endswith('session_file_storage::locks_') for x in cf.subtree_refs(cf.args(i)[0]))]
            lp = [L for i in shared_mk for L in q.enclosing_loops(cf, i)]
            cl = q.counting_loop(cf, lp[0]) if len(lp) == 1 else None
            ok7 = len(shared_mk) == 1 and (q.before(cf, mm[0], shared_mk[0]) or (q.reaches(cf, mm[0], shared_mk[0]) and not q.reaches(cf, shared_mk[0], mm[0]))) and cl is not None and cl['start'] == 0 and cl['step'] == 1 and cl['op'] == '<' and \
                any(model.strip_targs(x).endswith('session_file_storage::lock_size_') for x in cf.subtree_refs(cl['bound']))
            why7 = 'not every mutex of the shared table is created process-shared'
    ctx.check(ok7, R7, 'session_file_storage():mutex-table-shared-between-processes', why7, cf.where)
    cm = [g for g in P.fns.values() if g.short == 'create_mutex' and (g.record or '').endswith('session_file_storage') and g.body is not None]
    if cm:
        f = cm[0]
        sp_ = [i for i in f.calls() if (f.callee(i) or '') == 'pthread_mutexattr_setpshared']
        pshared = q.param_by_index(f, 1)
        g_ps = f.gate_edges(lambda atom, pol: f.ref_of(atom) == pshared and pol is True)
        init_ = [i for i in f.calls() if (f.callee(i) or '') == 'pthread_mutex_init']
        okm = len(sp_) >= 1 and all(f.const_value(f.args(i)[1]) == 1 for i in sp_) and bool(g_ps) and bool(init_)
        if okm:
            # on the process-shared path the initialisation uses the attribute that was marked shared
            av = f.ref_of(f.args(sp_[0])[0]) or ([x for x in f.subtree_refs(f.args(sp_[0])[0]) if x.startswith('v:')] or [None])[0]
            okm = any(av in f.subtree_refs(f.args(i)[1]) for i in init_ if q.reaches(f, sp_[0], i)) and not f.only_through(sp_[0], f.gate_edges(lambda atom, pol: f.ref_of(atom) == pshared and pol is False))
        ctx.check(okm, R7, 'create_mutex:process-shared-attribute-used', 'a mutex requested as process-shared is not initialised with PTHREAD_PROCESS_SHARED', f.where)
    pbf = P.fn('cppcms::impl::crc32_calc::process_bytes')
    from vlib import absint as _a7
    fv = [x for x in set(pbf.N(i).get('ref') for i in pbf.all_nodes() if pbf.N(i)['k'] == 'MemberExpr') if x and x.endswith('crc32_calc::value_')]
    ctx.require(len(fv) == 1, 'C18.R7: crc32_calc::value_ not found in process_bytes')
    bad = []
    for n_ in (0, 1, 2, 65535, 65536, 65537, 140001):
        calls = []
        arr = _a7.Arr([_a7.AV.const(0)] * max(n_, 1), 'data')

        def h_crc(it, fn_, i_, env_, calls=calls, arr=arr):
            a_ = fn_.args(i_)
            v_, p_, l_ = it.rvalue(fn_, a_[0], env_), it.rvalue(fn_, a_[1], env_), it.rvalue(fn_, a_[2], env_)
            if not (isinstance(p_, _a7.PV) and p_.arr is arr and isinstance(l_, _a7.AV) and l_.is_const() and isinstance(v_, _a7.AV) and v_.is_const()):
                raise _a7.Unsupported('crc primitive called on something else than the data')
            calls.append((v_.lo, p_.off, l_.lo))
            return _a7.AV.const((v_.lo * 31 + p_.off * 7 + l_.lo + 1) & 0xFFFFFFFF)
        hooks = {}
        for c_ in pbf.calls():
            cn_ = model.strip_targs(pbf.N(c_).get('cn') or '')
            if cn_ in ('crc32', 'Crc32_ComputeBuf') or cn_.endswith('::crc32'):
                hooks[cn_] = h_crc
        ctx.require(bool(hooks), 'C18.R7: no CRC primitive called from process_bytes')
        it = _a7.Interp(P, [], hooks=hooks)
        it.fields = {fv[0]: _a7.Cell(_a7.AV.const(0x1234))}
        try:
            it.call_fn(pbf, [_a7.PV(arr, 0), _a7.AV.const(n_)])
        except _a7.OutOfBounds as e:
            bad.append('%d bytes: %s' % (n_, e))
            continue
        off, val = 0, 0x1234
        okc = True
        for (v_, o_, l_) in calls:
            if v_ != val or o_ != off or l_ <= 0:
                okc = False
                break
            val = (v_ * 31 + o_ * 7 + l_ + 1) & 0xFFFFFFFF
            off += l_
        fin = it.fields[fv[0]].v
        if not okc or off != n_ or not (fin.is_const() and fin.lo == val):
            bad.append('%d bytes: the CRC primitive saw (running value, offset, length) = %s' % (n_, calls[:4]))
    ctx.check(not bad, R7, 'crc32_calc::process_bytes:whole-range-once-in-order-chained', '; '.join(bad[:2]), pbf.where)
    # the deadline is one 64-bit signed field: every reader of it (load and gc) reads it into the type the writer stored
    def first_read_type(f):
        for i in sorted(f.calls(), key=lambda j: (f.N(j)['l'], f.N(j)['c'])):
            if q.short_of(f.callee(i) or '') == 'read_all' and len(f.args(i)) >= 2:
                refs = [x for x in f.subtree_refs(f.args(i)[1]) if x.startswith('v:')]
                for j in f.all_nodes():
                    if f.N(j)['k'] == 'DeclStmt':
                        for d_ in f.N(j)['decls']:
                            if refs and d_['ref'] == refs[0]:
                                return (f.types[d_['t']] or '').replace('const ', '').strip(), refs[0], i
        return None, None, None
    rts = [g for g in P.fns.values() if g.short == 'read_timestamp' and g.body is not None]
    rff = [g for g in P.fns.values() if g.short == 'read_from_file' and g.body is not None]
    if rts and rff:
        t1, v1, c1 = first_read_type(rts[0])
        t2, v2, c2 = first_read_type(rff[0])
        signed64 = lambda t: t in ('int64_t', 'long', 'long long', 'std::int64_t', 'time_t', '__int64_t')
        okt = t1 is not None and t2 is not None and signed64(t1) and signed64(t2)
        if okt:
            # and the comparison with now is made on that variable itself, not on a converted copy
            cmps_ = [i for i in rts[0].all_nodes() if rts[0].N(i)['k'] == 'BinaryOperator' and rts[0].N(i).get('op') in ('<', '<=', '>', '>=') and v1 in rts[0].subtree_refs(i)]
            okt = bool(cmps_) and all(not [j for j in rts[0].walk(i) if rts[0].N(j)['k'] in ('CStyleCastExpr', 'CXXStaticCastExpr', 'CXXFunctionalCastExpr') and 'unsigned' in (rts[0].type_of(rts[0].N(j)) or '') + ('uint' if 'uint' in (rts[0].type_of(rts[0].N(j)) or '') else '')] for i in cmps_)
        ctx.check(okt, R7, 'read_timestamp:deadline-read-as-the-signed-field-load-reads', 'gc reads the deadline as %r, load as %r: a header with the top bit set is "expired" for load and "far in the future" for gc (never collected)' % (t1, t2), rts[0].where)
    ctx.floor(R7, 3)
    ctx.floor(R1, 20)
    ctx.floor(R2, 8)
    ctx.floor(R3, 16)
    ctx.floor(R4, 7)
    ctx.assume('CRC-32 collisions between a torn and a complete record are outside the claim')
    ctx.assume('write_all/read_all do not advance the buffer on a short transfer (observed); a short transfer followed by success changes the bytes on disk, which the CRC gate rejects on load')
