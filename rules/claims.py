"""Per-property claim texts for MANIFEST.json (what is decided, what is assumed)."""
CLAIMS = {}
NOT_APPLICABLE = {}

CLAIMS['C05'] = dict(
    category='other',
    technique='static analysis: edge-sensitive CFG domination (cut-set reachability) + provenance over the clang AST/CFG',
    text='Decides, on every CFG path of every overrider of encryptor::decrypt (found through the class hierarchy) and of session_cookies::load/save, '
         'the code-shape clauses of the property: plain text is written, CBC-decrypted or accepted only after the constant-time MAC comparison succeeded over digest_size bytes; '
         'the expiry copied out of the authenticated plain text is compared with time() before success; every rejected non-empty cookie is cleared; '
         'configuration cannot reach CBC without a MAC, HMAC keys < 16 bytes throw, a fresh CBC object gets a random IV; hmac_cipher::equal is proved exact by abstract interpretation (n=1..3, all byte values of one side); '
         'the base64url layer of the cookie (alphabet, inverse, size formulas, impossible length rejected) is decided as in C15.R4. Holds for all inputs because these are path properties / exhaustive boxes; '
         'it is a necessary condition of authenticity, not a proof of cryptographic strength.',
    note='Trusted: clang front end, the extractor, the non-mutating-accessor table of vlib/q.py. Not decided: cryptographic strength of HMAC/AES, byte-exact save/load round trip, base64 canonical form.')

CLAIMS['C07'] = dict(
    category='other',
    technique='static analysis: pairing / cut-set domination on the clang CFG, who-may-call, loop-shape rules',
    text='Decides on every path of both mem_cache<Setup> instantiations and of cache_interface the structural necessary conditions of "never returns invalidated, '
         'expired or superseded data": delete_node unlinks from lru, timeout, every trigger list (dropping emptied lists only when empty) and primary, and is the only eraser; '
         'store deletes an existing entry of the same key before the single insert and links the new one everywhere; the key is always one of its own triggers and every supplied '
         'trigger is added; fetch hands out data only past find!=end and the not-expired comparison with time(); rise deletes from a private copy; cache_interface re-adds fetched '
         'triggers, records key and triggers on store/store_page and notifies recorders.',
    note='Trusted: clang front end, extractor, the non-mutating accessor table. Not decided: correctness of hash_map / std containers, "most recent store wins" as a history property, shared-memory allocator.')

CLAIMS['C08'] = dict(
    category='other',
    technique='static analysis: CFG domination + linear guard implication (DNF of the loop-exit condition, Fourier-Motzkin)',
    text='Proves that check_limits() precedes the only insertion with no size change in between, and that the negated eviction-loop condition implies size+1 <= limit whenever limit>0 '
         '(every disjunct of the exit condition, Fourier-Motzkin; an off-by-one such as > for >= fails the proof); expired entries are chosen before LRU ones, the LRU victim comes from '
         'the end opposite to where store/fetch insert, every hit moves the entry; size / triggers_count change exactly with membership; bad_alloc while linking clears the cache.',
    note='Assumes the invariant lru.empty() => size==0 for the break exit (stated in the evidence; it follows from C07.R1/R2). Not decided: buddy allocator behaviour, memory actually released, process-shared memory pressure branch (treated as opaque).')

CLAIMS['C09'] = dict(
    category='proof',
    technique='static analysis: flow-sensitive lockset dataflow over the clang CFG with inter-procedural requirement propagation',
    text='Lock-discipline proof for both instantiations of mem_cache<Setup>: every read/write of guarded state (8 members + 5 per-entry fields, frozen guarded-by table) is under access_lock in the '
         'required mode on every CFG path including exception edges; LRU state additionally allows shared access_lock + lru_mutex; helpers requiring the exclusive lock are checked at every call site; '
         'fetch writes nothing but LRU state; the RAII guard classes and the pthread / fcntl primitives they reach acquire in the mode the table assumes. This holds for every schedule. '
         'Linearizability is argued from the discipline (each operation acts inside one critical section of a readers-writer lock) and is not machine-checked.',
    note='Trusted: the guarded-by table (rules/C09.py), guard API table (vlib/lockset.py), pthread rwlock/mutex semantics, the documented configuration-time use of set_size and the constructor.')

CLAIMS['C17'] = dict(
    category='other',
    technique='static analysis: lockset dataflow, resolved-overload inspection, CFG pairing/domination, handler-linearity (min,max) dataflow',
    text='Decides for booster/lib/aio/src/*.cpp and src/thread_pool.cpp: all event-loop / pool state is touched only under its mutex (explicit unlock/lock window of run_one tracked flow-sensitively); '
         'handlers and jobs run with the lock released; every completion_handler built from a *stored* handler selects the ownership-taking (non-const&) constructor overload, which releases the source; '
         'queueing a stored handler is paired with erasing its registration (timers, cancel, I/O dispatch, close); a timer completes with success only on the deadline<=now edge for the earliest timer '
         'and the unmodified ptime::now() stamp; every completion handler token (parameter or member of a callable object) is consumed exactly once on every path of every async entry point and continuation; '
         'thread_pool enqueues, notifies unconditionally, runs outside the lock inside catch(...), cancel is true iff erased; cross-thread entry points wake a polling loop; a cancel is dropped only when '
         'nothing is queued and nothing registered.',
    note='Trusted: guarded-by tables, std::recursive_mutex / condition_variable semantics, reactor back-ends and the self-pipe. Not decided: liveness/fairness, reactor readiness semantics. io_service::reset() is exempt (documented not thread safe).')

CLAIMS['C19'] = dict(
    category='other',
    technique='static analysis: linear guard-implication (forward constraint propagation + Fourier-Motzkin) and per-path operation-count agreement on the CFG',
    text='Proves for archive::next_chunk_size / read_chunk / read_chunk_as_string (callee inlined, every path) that each memcpy and std::string(p,n) reads inside [0, buffer_.size()): the obligations '
         'ptr_+4 <= size and ptr_+4+len <= size follow from the guards in force (this is the rule that found the off-by-header defect, now fixed). Structural: read_chunk copies only after stored length == requested length, '
         'cursors advance, the writer emits a 4-byte length then the payload; for all 45 archive_traits specialisations (macro-generated ones included, instantiated by an analysis-only witness unit) save and load perform '
         'the same number of primitive chunk operations on every path (helper calls flattened), so a loader cannot skip or double-read a chunk that the saver wrote.',
    note='Assumes no size_t wrap of (32-bit length + offset) on the 64-bit target. Not decided: equality of arbitrary object graphs after a round trip, user-defined serializable classes.')

CLAIMS['C06'] = dict(
    category='other',
    technique='static analysis: reaching definitions / provenance with gate edges, CFG pairing, lockset, linear bounds (Fourier-Motzkin)',
    text='Decides: every id handed to storage load/save/remove in session_sid has, on every path, provenance {out-parameter of valid_sid on its true edge, get_new_sid()} (never the empty default); '
         'remove() is only ever applied to the id the client presented; a presented valid id is replaced only after its record was removed; new-data is never saved under the presented id; '
         'the cookie carries the saved id; get_new_sid takes >=16 bytes from urandom_device only and encodes all of them; every session_api::load overrider succeeds only past the deadline-vs-time() test, '
         'the expired edge removes the record; session_memory_storage is accessed under its mutex and keeps record deadline and expiry-index key identical (erase old index entry before insert); '
         'session_dual dispatches on the cookie type and clears the server record before switching to client storage; load_data/packed reads are proved inside the string (linear bounds with bit-field ranges).',
    note='Not decided: value-exact carry-over across histories, renew-window arithmetic, exposed-cookie reconciliation, exactness of valid_sid (E3 rule pending). Trusted: std containers, the non-mutating accessor table.')

CLAIMS['C18'] = dict(
    category='other',
    technique='static analysis: gate-edge domination on the CFG, provenance of call arguments, writer/reader table agreement, lockset with locked_file as guard',
    text='The enumeration of torn states is a runtime quantity; what makes every torn state harmless is structural and is decided: read_from_file reports success (and writes its out-parameters) only past '
         'each of the three header short-read tests, the deadline<time() test, the data short-read test and the false edge of crc != CRC32 where the CRC object processed exactly the `size` bytes read into the returned buffer; '
         'writer header layout (field sizes and roles, via the type of the object written first) equals the reader sequence, CRC/size describe the bytes written, header precedes data, short writes are reported; '
         'every file access lies inside the lifetime of a locked_file whose constructor locks before open and whose destructor always unlocks; unlink happens only on the failed-read edge of load / expired timestamp in gc for 32-hex names.',
    note='Assumption: CRC-32 collisions between a torn and a complete record are outside the claim. Not decided: filesystem ordering of the two write() calls after a power loss, fcntl locking across processes.')

CLAIMS['C13'] = dict(
    category='other',
    technique='static analysis: reaching-definition provenance with gate edges, flag-carried facts, CFG domination, escape-wrapper routing',
    text='Decides on every path of file_server::main that each path reaching a file operation (file_mode, ifstream, async_file_handler, list_dir) is the out-parameter of check_in_document_root on its true edge '
         '(copies and re-assigned boolean flags followed); check_in_document_root normalises before any other use, success under check_symlinks_ needs is_in_root, is_in_root needs canonical() and '
         'is_file_prefix(root, canonical), alias matching is component-wise, is_file_prefix compares length, all bytes and the directory boundary; every decrement of the normaliser cursor is directly governed by out > begin+1; '
         'only S_IFREG files are streamed and the tested mode belongs to the opened path; listing only when enabled, dot names skipped, every name / URL written through util::escape or util::urlencode.',
    note='Not decided: the lexical normaliser result for every segment sequence when symlink checking is off (only its floor is decided); realpath/canonicalize_file_name are trusted.')

CLAIMS['C20'] = dict(
    category='other',
    technique='static analysis: who-may-call, constant-evaluated call arguments, CFG domination, loop-shape and table rules over resolved overloads',
    text='Decides: the dispatcher, mount point and application pool call only regex_match; both booster::regex::match overloads run the separately compiled end-anchored program (d->are) over the whole [begin,end) from offset 0 '
         'with an options word containing PCRE_ANCHORED (evaluated from the parsed <pcre.h>), return true only if pcre_exec succeeded and, for captures, only if the match spans the input; assign() builds that program exactly as '
         '"(?:" + pattern + ")\\z" with the same flags (so a top-level alternation cannot escape the anchor); url_dispatcher scans options from 0 upward over the whole table and returns at the first hit, the table is append-only, '
         'the pool returns at the first matching mount; option::matches returns the whole-path match and is reachable past the method filter only when it passed; every success of mount_point::match passed, for host, script name and path info each, '
         'the empty() or the regex_match edge, and the returned sub-path comes from the selected side; handler overload k is given match_[select_[0..k-1]] in order.',
    note='Trusted: PCRE semantics of PCRE_ANCHORED and \\z. Not decided: mapper/dispatcher agreement (URL generation inverse).')

CLAIMS['C11'] = dict(
    category='other',
    technique='static analysis: gate-edge domination on the CFG, who-may-call, loop-guard and pairing rules',
    text='Decides for src/json.cpp / cppcms/json.h: the parse target is written exactly once, only when state==st_done and past the trailing-input test (force_eof false or next()==eof), and that path returns true; '
         'load() is true iff the parse succeeded; all pushes but the initial one are inside the loop guarded by stack.size() <= json_max_depth (constant from the tree), one push per iteration, no recursion; '
         'a string token is accepted only past utf8::validate over the whole decoded string, raw control characters and unknown escapes are rejected; a duplicate key reaches st_error before the value slot is used; '
         'value::write imbues the C locale before write_value and restores the stream locale on the normal and the exceptional path, write_value is reachable only through write (every save/operator<<), '
         'the tokenizer brackets the input stream with the classic locale; all integer/float traits<T>::get return only past the round-trip / range comparison.',
    note='Not decided: language equivalence with RFC 8259 (e.g. trailing commas), number round-trip precision, the escape tables of generic_append (abstract-interpretation rule, separate).')

CLAIMS['C12'] = dict(
    category='other',
    technique='static analysis: gate-edge domination, exhaustive-switch check against the enum, per-case path rules, provenance of call arguments',
    text='Byte-exact reconstruction under all cut points is a runtime quantity and is not claimed. Decided clauses: in on_content_start every allocation sized by the declared length (post_data.resize, the multipart parser) lies past a limit '
         'comparison and the sign test; on_content_progress handles every parsing_result_type enumerator explicitly (no_room_left -> 413, parsing_error/default -> 400, eof with leftover or length mismatch -> 400, declared length reached without eof -> 400), '
         'marks the request ready only when read_size == content_length, and contains exceptions; size_ok runs on both the content_partial and the content_ready edge before the filter is told, its false edge returns 413; '
         'http::file::~file closes and close() removes an unsaved temporary file on every path of the temporary branch; in the boundary matcher a failed partial match is re-emitted from the boundary text (never from the input buffer) '
         'with the matched length read before it is reset, a byte is written only when it was not counted into the match, and failed writes are reported.',
    note='Not decided: reconstruction exactness of the matcher for all content/boundary/cut combinations, Content-Disposition parsing, file_buffer spill-over.')

CLAIMS['C10'] = dict(
    category='other',
    technique='static analysis: CFG domination / pairing, resolved call-argument inspection (default arguments included), sender/receiver field-set agreement',
    text='Coherence over all client interleavings is a history property and is not claimed. Decided necessary conditions: every successful cache_over_ip::fetch consulted the server; an L1 hit is revalidated with transfer_if_not_updated=true, '
         'the same key and the generation the L1 copy was stored under; only up_to_date returns the L1 value, not_found purges L1 and is a miss, every other outcome refreshes L1; every L1 copy is stored with an explicit generation argument that is the '
         'one received from the server (a defaulted gen is reported); store/rise/clear always reach the servers; rise/clear are broadcast over all connections, store/fetch use hash(key) which depends only on key and the server count; '
         'the server answers uptodate only when asked, on a hit and for an equal generation, no_data only on a miss, and replies with the entry\'s generation; mem_cache stamps each store with the supplied or a fresh generation and increments the counter nowhere else; '
         'per message the receiver reads only header fields the sender writes, sizes are payload sizes, a data reply always replaces value, deadline and generation; the server slices its input only past the length equation / the 32-byte sid checks.',
    note='Observed and not claimed (DESIGN.md): trigger set returned after an L1 refresh is the union of old and new triggers; trigger names containing NUL cannot cross the NUL-separated wire format. Not decided: interleaving coherence, strlen walks over the reply on the client (trusted server).')

CLAIMS['C14'] = dict(
    category='proof',
    engine='cppcms-facts + vlib/absint (abstract interpreter) + vlib rules',
    technique='static analysis: abstract interpretation of the decoder/validator sources over input boxes (value sets + strided intervals, box refinement), compared with the RFC 3629 table; table and domination rules for the registry and the filters',
    text='Exhaustive by construction over all byte strings of length 0-4 (2^32 sequences covered by ~9000 boxes): cppcms::utf8::next (html on/off) and booster utf_traits<char>::decode return, on every box, exactly the RFC 3629 verdict '
         '(shortest form, no surrogates, <= U+10FFFF, truncation -> illegal/incomplete; html mode additionally rejects C0 except TAB/LF/CR, DEL and U+0080-U+009F), the same code-point set and the same number of consumed bytes. '
         'Every single-byte validator accepts 0x20-0x7E, rejects C0 controls (except TAB/LF/CR) and DEL, ISO-8859 validators reject 0x80-0x9F, ASCII rejects >= 0x80, one count per byte (thorough: every byte pair is the conjunction). '
         'Every registered encoding name maps to the validator of that code page. The filters copy input bytes only under the html-safe decoder / per-byte validator success for exactly those bytes and return valid input untouched.',
    note='Trusted: the RFC table in rules/C14.py and the abstract domain of vlib/absint.py (a code-point set is compared by endpoints and cardinality on each box). Not decided: iconv/ICU fall-back path (not compiled in), multi-byte non-UTF-8 code pages, the loop of utf8::validate beyond "one count per decoded sequence".')

CLAIMS['C15'] = dict(
    category='other',
    engine='cppcms-facts + vlib/absint (abstract interpreter) + vlib rules',
    technique='static analysis: abstract interpretation of the codec sources per input-byte box against the standard tables; call-graph routing rules',
    text='Exhaustive per byte (all 256 values by boxes): both util::escape overloads emit exactly the five entities for < > & " \' and every other byte verbatim (the ostream overload forwards); urlencode_impl (all three iterator instantiations) emits unreserved bytes '
         'verbatim and %hh with lower-case hex, high nibble first, otherwise; urldecode maps every %hh to 16h+l, + to space and other bytes to themselves, so decode(encode(b)) = b for every byte; the base64url alphabet is the 64 RFC 4648 section 5 characters, '
         'encode_8_to_6 is its inverse, bencode stays inside the alphabet for all data bytes and agrees with RFC 4648 / round-trips on the 6-bit-group boundary values, encoded_size/decoded_size are exact for 0..63 and are case splits on the residue, '
         'an impossible length is rejected before the buffer sized by decoded_size is filled. Routing: the escape / urlencode stream filters forward their whole range to util::escape / util::urlencode with no other output, base64 filter uses b64url::encode, '
         'every form-widget output of user-controlled text is wrapped in util::escape / filters::escape.',
    note='The per-byte clauses are exhaustive; the block codec is exhaustive for alphabet closure and sampled on bit-group representatives for value equality; the routing clause is structural. Not decided: HTML un-escape inverse (no decoder in the tree), js escape filter.')

CLAIMS['C16'] = dict(
    category='other',
    engine='cppcms-facts + vlib/absint + vlib rules',
    technique='static analysis: sibling agreement over all readout overriders, resolved-call sequence rules, constant tables extracted by constant evaluation and compared with independently computed standards, abstract interpretation of the SHA-1 padding for every fill level',
    text='Digest values for all messages are numerical and are not claimed. Decided: every message_digest::readout (macro-generated OpenSSL classes included) finalises and then re-initialises with the initialiser of its own algorithm, constructor and append use the same family; '
         'hmac::init hashes only keys longer than the block, XORs the whole block with 0x36 (inner digest) and 0x5c (outer digest), hmac::readout is inner readout, outer append(digest), outer readout to the caller, re-init; '
         'digest_size / block_size / name of every digest class equal 16/64, 20/64, 28/64, 32/64, 48/128, 64/128 and create_by_name maps each name to that class; the 64 MD5 additive constants (constant-folded from the T_MASK expressions) equal floor(2^32|sin(i+1)|) in order, '
         'rotate amounts, MD5/SHA-1 initial words, SHA-1 round constants and the MD5 padding vector equal the standards; SHA-1 padding is evaluated abstractly for all 64 fill levels (0x80, zeros, one or two blocks, big-endian bit length); '
         'key::from_hex returns the nibble for exactly [0-9A-Fa-f], set_hex rejects odd lengths and accepts exactly hex digits.',
    note='Trusted: OpenSSL SHA-2 and AES primitives, the standard tables computed in rules/C16.py. Not decided: digest values under arbitrary chunking (process_block arithmetic), CBC round trip.')

CLAIMS['C02'] = dict(
    category='other',
    engine='cppcms-facts + vlib (linear, linbound, absint) rules',
    technique='static analysis: handler-linearity dataflow, who-throws, gate-edge domination for sign/sentinel/type guards, linear bounds (Fourier-Motzkin) under a declared cursor invariant, abstract interpretation of the cookie scanner',
    text='Totality over all byte strings is not claimed. Decided on every path: each completion handler (56 tokens in cgi_api/http_api/scgi_api/fastcgi_api/http_context/tcp_cache_server and the acceptors) is consumed at most once, so a request is completed / shown to the application at most once '
         '(this rule finds both FastCGI double-completion defects fixed in /repo); no throw expression exists in the 171 member functions of connection classes and their callback structs; every peer-declared length (atoi/atoll results, env_content_length) is known non-negative '
         'before it sizes a buffer (finds the negative Content-Length defect); strlen-style walks over receive buffers are dominated by a NUL sentinel store (finds the SCGI over-read); FastCGI record readers, both parse_pairs, read_len, on_header_read and SCGI on_first_read '
         'are proved in bounds (88 linear obligations) under the cache cursor invariant; error pages only for a non-zero status and only if nothing was written, the connection is then marked unusable; application::main runs inside catch(...); FastCGI continuations report success only for the expected record type, '
         'version-1 BEGIN_REQUEST and responder role; the cookie scanner advances on every input of length <= 2 (quick) / 3 (thorough) and is called on every loop turn, so no header can stall the event loop.',
    note='Assumes the fastcgi cursor invariant 0 <= cache_start_ <= cache_end_ <= cache_.size() at entry of the record readers and the 16-byte first-read buffer of SCGI (both stated in the evidence). Not decided: HTTP header parser state machine, chunked input, half-close timing, isolation between connections beyond "no exception / no unsafe read".')

CLAIMS['C01'] = dict(
    category='other',
    engine='cppcms-facts + vlib (lockset access classification, linbound) rules',
    technique='static analysis: computed who-writes sets closed over the request-boundary call graph; linear bounds (Fourier-Motzkin) of the read-ahead cursors under declared class invariants',
    text='Exactness of parsing, equality of the three front-ends and independence from split points are statements about parsed values and are NOT decided (an off-by-one in a cursor that stays in bounds changes a byte without changing the shape of the code). '
         'Decided clauses, both necessary for the property: (1) keep-alive hygiene - the set of fields written while a request is processed is computed from the code of http, fastcgi and the connection base class; every input-side field is written again by the closure of '
         'keep_alive / reset_all / async_read_headers, the base-class reset is reached on every turn, or the field is on a one-symbol allow-list with its reason; SCGI, which has no reset, never reports keep-alive; '
         '(2) the read-ahead cursors - every memcpy / memmove / index out of the FastCGI record cache, FastCGI body and HTTP input buffer is proved inside its buffer (141 linear obligations) under the cursor invariants.',
    note='Assumes the cursor invariants at member-function entry and that an asynchronous read completes with at most the bytes of its buffer (stated in the evidence). The allow-list (17 symbols) is part of the trusted base.')

CLAIMS['C03'] = dict(
    category='other',
    engine='cppcms-facts + vlib (linbound) rules',
    technique='static analysis: gate-edge domination and pairing on the CFG, linear range proofs of record header fields, literal/length table agreement, computed reset sets, argument-provenance of re-queued buffers',
    text='Byte-exactness under arbitrary short-write schedules, gzip content and buffer growth arithmetic are value properties and are NOT decided. Decided necessary conditions: each of the three format_output overriders emits the header block exactly on the path where its written-flag was false and sets the flag there, '
         'the flag is cleared only at request boundaries; FastCGI: content_length / padding_length stores are proved in range, the pre-built 65535-byte record header is sent only when the same call prepared it (in_size > 65535 proved at the use - the rule that catches a >= slip at the record boundary), '
         'padding rounds to 8, the END_REQUEST block is sent exactly when completed and is STDOUT(0)+END_REQUEST(8, request complete) with the request id; gzip stream finished only while open, response::finalize closes every buffer once; every (literal, length) pair agrees (chunk trailers 5/2/7); '
         'chunk = hex size line + data + CRLF, terminator only when completed, Transfer-Encoding iff chunking, Content-Length only for a complete single write; every output-side field is reset by reset_all/keep_alive/set_response_headers or survives by design; '
         'after a short write the re-queued data is exactly (buffer written)+(bytes written), new data alone only when nothing was sent, pending output dropped only when everything was sent, the async continuation advances by exactly n.',
    note='Not decided: the arithmetic inside append_pending / async_io_buf, gzip content, header formatter agreement (response_headers.h), cache tee. The 17-symbol allow-list of C01 applies.')

CLAIMS['C04'] = dict(
    category='other',
    engine='cppcms-facts + vlib/absint + vlib rules',
    technique='static analysis: stage-order / domination rules on the CFG, sibling agreement between validate and the filter, exhaustive-switch check, abstract interpretation of the escape switch for every byte',
    text='Absence of a bypass string for unbounded inputs is NOT decided. Decided necessary conditions: validate and validate_and_filter_if_invalid run split_to_parts, parse_part (every entry), validate_nesting, validate_entry_by_rules (every entry) in that order '
         'on [begin,end); after transcoding a non-ASCII-compatible encoding both pointers are rebased onto the transcoded buffer before the tokeniser runs, and charset validation runs on that same range whenever an encoding is configured; every failing stage edge '
         'reaches `return false` in validate and `valid=false` in the filter, a rule failure marks the entry and its partner tag invalid, the filter reports true only if still valid and then leaves the output untouched; '
         'an entry is copied verbatim only on the not-invalid edge and as its own [begin,end), invalid entries are dropped (remove mode) or go through the escape switch, which for all 256 bytes emits &lt; &gt; &amp; &quot; and otherwise the byte; '
         'validate_entry_by_rules has a case for each of the html_data_type enumerators, rejects invalid_data, unparsed html_tag, unknown kinds and unlisted tags, consults valid_tag / valid_entity and valid_property or valid_boolean_property for every attribute, rejects duplicates; only regex_match is used (its anchoring is C20.R1).',
    note='Not decided: tokeniser tiling, attribute-value entity parsing, numeric entity range (parse_html_entity accepts low surrogates DC00-DFFF textually: observation), nesting checker semantics, stability filter(filter(x)) as a value property.')


# clauses added in the second session (rules listed in DESIGN.md section 6.2)
EXTRA = {
 'C01': 'Also decided: the HTTP header budget is charged with exactly the bytes handed to the parser on each pass (symbolic equality with size - cursor), so the 16 KiB limit does not depend on segmentation.',
 'C02': 'Also decided: no throwing overload of a booster::aio socket operation is used in a connection class where an error_code overload exists; no throw expression or checked accessor (at(), sto*()) is reachable outside a try block from the context callbacks that prepare a request on the event-loop thread (call graph over eight units, library calls without a body assumed not to throw). An accessor of booster::aio::endpoint that raises on an empty endpoint is applied to the result of remote_endpoint(e) only behind the test of e (C02.R2).',
 'C03': 'Also decided: the FastCGI full-size record header is prepared on the strength of the current call only (no connection state in the guard); booster::aio::details::advance (buffer + n) keeps exactly the bytes after the first n.',
 'C04': 'Also decided: ascii_streq, which pairs closing with opening tags, is exact (abstract interpretation, names of 0..3 bytes) and pairing happens only on its success.',
 'C05': 'Also decided: aes_factory takes the encryption key and the MAC key from disjoint, covering parts of an exact-length secret (linear implication) or from two separately labelled HMAC derivations.',
 'C06': 'Also decided: valid_sid accepts exactly "I" + 32 lower-case hex digits (abstract interpretation per position and length); entry::operator== used for change detection covers every field; delegating session_api implementations forward parameters in their roles.',
 'C08': 'Also decided: shared-memory pressure is judged by buddy_allocator::max_free_chunk through shmem_control::max_available.',
 'C10': 'Also decided: messenger::transmit returns normally only after the request was written and the reply read (a reconnect re-sends or throws).',
 'C11': 'Also decided: the string writer is exact against RFC 8259 section 7 for every input of length 0..2 (abstract interpretation, both appenders), the reader escape table equals RFC 8259, and the parser never narrows a token to a NUL-terminated string.',
 'C12': 'Also decided: read_file rewinds before copying a field into post(); save_to marks the temporary file as gone only after a successful rename or an explicit remove.',
 'C14': 'Also decided by abstract interpretation: validate_or_filter_utf8 is exact against a reference filter built on the RFC 3629 table (lengths 0..2, 0..3 thorough); booster utf_to_utf<char,char> throws with `stop` exactly on ill-formed or truncated input and with `skip` always yields well-formed text, unchanged when the input is well-formed; the charset fall-back of valid() converts with `stop`.',
 'C15': 'Also decided: the stream-buffer variants report a failing sink (every sputn/sputc result decides continuation; urlencode asks failed() of the iterator that wrote); every success return of b64url::decode(string) stores the output. Two genuine defects found by these rules were repaired (known_findings.json).',
 'C16': 'Also decided (OpenSSL back-end): AES_cbc_encrypt is given the member chaining IV and key schedule of its direction and set_iv fills both.',
 'C17': 'Also decided: retry objects re-arm or complete on the error code of their own I/O attempt; the shuffle of ready events stays inside the n events of the current poll (linear implication).',
 'C19': 'Also decided: every read_chunk(p,n) of the 30 trivially-copyable loaders writes inside the object p points to (vectors scaled by element size); each rejection of next_chunk_size is infeasible when a complete chunk remains, so archives ending in an empty chunk load.',
 'C20': 'Also decided: every scan over mount points in applications_pool is first-hit (a later match never replaces the selection).',
}
EXTRA2 = {
 'C01': 'Embedded HTTP server (no pinned test covers it): the request line is split at its two spaces; Content-Length / Content-Type are kept (also in the typed fields), other headers become HTTP_<NAME>; every parser outcome is followed up; read-ahead body bytes are handed out first, once, in order; the URI is split at "?", the script name is cut only on a whole-component match (and always then), PATH_INFO is the decoded rest; a header line maps to (NAME, value) exactly (abstract interpretation over all byte values for lines with free bytes in the name, around the colon and in folded white space). FastCGI socket path: the bytes asked from the socket are content + padding of the record and the read is skipped only when that sum is 0 (C01.R5). The script-name clause of C01.R6 is established either structurally or by interpreting one turn of the script-name loop over a grid of (path, name) pairs.',
 'C03': 'HTTP framing decisions: the bytes of every write are in what is sent (plain or chunk-framed), a computed Content-Length is the size of the single complete write, keep-alive only when the body end is recognisable, chunking exactly when kept alive without a length, header block closed by an empty line. Output stream buffers test the overflowing character against EOF as an int (C03.R12: no comparison on a value narrowed to char); the response header map orders names as their lower-cased spellings (C03.R13, E3 over a name grid). Every overflow(c) of the response buffers takes c before it reports success (C03.R12).',
 'C04': 'Tokeniser: per turn of the main loop exactly one entry from the old to the new cursor (path engine, any input length); plain text never opens on or runs over < > &; tag / entity / comment entries only after their delimiter; entry shapes and the attribute-value language exact for all short inputs (abstract interpretation). uri_parser::scheme() takes exactly the RFC 3986 scheme characters (C04.R11, E3 over every first and second byte).',
 'C05': 'The value compared with the transmitted MAC is the HMAC just read out from the object that was fed the message; size - digest_size only after the length test; CBC output buffers hold what is written. Legacy encryptor spelling: the default MAC algorithm only under == "hmac", prefix tests exactly as long as their literal, the algorithm name cut off after a tested prefix of that length (C05.R5).',
 'C06': 'The session blob writer and reader agree field by field (header, key, value offsets and lengths symbolic; lengths that do not fit their bit field are refused). Network session storage picks the server by the session id alone in save / load / remove and sends the id first; the typed accessors set<T> / get<T> work in the classic locale (C06.R13).',
 'C07': 'The value stored is the value supplied and the one fetched; the iterator linked into lru / timeout / triggers is the inserted one; add_trigger registers entry and back reference; rise / remove delete every selected entry. cache_interface::fetch / store never override the caller\'s notriggers argument (C07.R6). cache_interface plumbing (C07.R10): rise / clear reach the backend, trigger loops visit their whole container, store records exactly when not notriggers, deadtime(sec) = now + sec or never, recorders keep and hand out what they are told, frame wrappers forward. shmem_control accessors forward to the allocator primitive of their own meaning and memory pressure is judged from the largest free chunk; cache_pool reads only option paths the reference configuration knows (C07.R10).',
 'C10': 'Wire format end to end (store frame and data reply: lengths, slices, NUL-separated names; operations reach the cache); the client verdict follows the reply opcode.',
 'C11': 'Object keys are compared over their whole length (no NUL-terminated primitive reachable from string_key comparison). The arithmetic behind \\u escapes is exact by abstract interpretation: utf8::encode gives the RFC 3629 bytes and length for every code point (aligned 64-blocks; every 7th block in the quick tier), the surrogate range tests and combine_surrogate are exact (C11.R10). The tokenizer validates decoded strings as plain UTF-8 (effective html argument false) (C11.R3). Narrowing floating conversions test both bounds against the limits of the type converted to (C11.R7).',
 'C12': 'The in-memory field limit handed to size_ok is content_length_limit(). Saving an upload keeps every byte (C12.R7): the reading side is cleared and rewound and the buffer synchronised before the bytes move, in-memory uploads are copied out, on-disk ones renamed and copied only after a failed rename, save_by_copy writes the whole stream in binary mode. The upload stream buffer returns characters only through to_int_type / unsigned char (C12.R8: 0xFF must not read as end of file). The limits compared are the configured ones (C12.R9): each from the settings entry of its own name and key, KB limits scaled by exactly 1024, accessors read / write their own member. The filter-kind flags on_content_progress dispatches on are brought up to date wherever the filter pointer is written (C12.R10).',
 'C13': 'normalize_path never yields a climbing path for any input up to 6 (8 thorough) bytes (abstract interpretation by byte class); an alias applies only on a whole-component prefix, at most once, with the target of the tested alias; the unchecked branch returns root + path minus one trailing separator. Only / separates path components in this configuration (E3 over every byte) and the document root and alias targets are stored only after canonical() resolved them (C13.R7).',
 'C14': 'Form text widgets validate the whole value, mark invalid text, and compare both limits with the code-point count. The accept set of every single-byte validator equals the defined non-control characters of its code pages (reference: Python codec tables); the whole-string UTF-8 validators ask the decoder once per code point, in order, and count one per code point (decoder summarised); dispatch by name hands (begin,end,count) to the registered validator, falls back through a stop-conversion to UTF-8, and the single-byte and conversion-based filters keep good text and replace or drop the rest; encoding names compare by their lower-cased alphanumerics. An out-of-bounds access or a value-returning function falling off its end met during abstract interpretation is reported as a violation (rule Cnn.BOUNDS). The iconv back-end never ends a stop conversion normally after a failed step other than E2BIG (C14.R6).',
 'C15': 'Buffered filterbuf keeps byte order; base64url range drivers hand every block to the block codec at matching offsets into an exactly sized buffer for lengths 0..40; urldecode continues exactly behind each unit. Template filters: operator() of escape / urlencode / base64_urlencode diverts the stream into the converting buffer before the value is rendered (C15.R8); the buffered filterbuf is checked against the std::streambuf put-area protocol by abstract interpretation - every byte put reaches convert once, in order, with the original buffer as sink, release restores the stream, a failing convert surfaces as EOF / failbit / -1 (C15.R9). filterbuf::overflow tests EOF on the int (C15.R9). numeric<T> (header template, instantiated in an analysis-only unit) echoes rejected input only escaped (C15.R2); copies of the filter classes carry every member (C15.R8). What urldecode takes for a %XX escape is decided by xdigit(), which is true for exactly 0-9 a-f A-F (C15.R3).',
 'C16': 'md5_process reads the block it is handed. Buffering and padding of the bundled MD5 and SHA-1 for every pending-byte level x piece length (the stream is tiled into 64-byte blocks in order, remainder kept, bit count with carry, RFC 1321 / FIPS 180 padding and length bytes, state words read out in the right byte order); where HMAC key bytes go (zero-extended short key in both pads, long key hashed then used for both, outer hash fed the whole inner digest); key objects (key file minus trailing blanks reaches the hex decoder, every pair decoded in place, copies take data and size, reset leaves the empty key). The compression arithmetic itself is left to the pinned known-answer tests.',
 'C17': 'The recorded event set of a descriptor is the one the reactor was armed with. Thread pool liveness shape (C17.R13): one worker thread per index, a worker leaves only on shutdown, takes only from a non-empty queue, waits only on an empty one, invokes a held job, stop() joins every worker, cancel searches the whole queue; the lockset rule treats a method that only constructors / destructors call as an entry point. Teardown and adapters (C17.R14): close() reaches cancel() for non-owning devices too, the connect adapter hands on every error except exactly select_failed, a cancelled descriptor is removed from the reactor on every path. Read / write until done completes with the accumulated byte count (C17.R10).',
 'C18': 'read_all / write_all transfer exactly n bytes or fail and terminate (end of file fails instead of spinning); success hands out the verified bytes (empty only for stored size 0); in cross-process mode a descriptor is kept only under an exclusive fcntl lock on the file the name still refers to. Multi-process mode: the mutex table is a MAP_SHARED mapping of lock_size_ process-shared mutexes; crc32_calc::process_bytes covers [ptr, ptr+n) once, in order, chained (C18.R7, E3 with the CRC primitive as recorder).',
 'C19': 'Reader cursor arithmetic (length word at the cursor, payload 4 bytes behind it, advance 4 + payload); str / mode / reset / assignment install the state; container loaders append in archive order.',
 'C20': 'A method filter is classified by scanning all of it; keyword defaults are kept only in the root-most mapper. Dispatcher plumbing (C20.R8): the three filter modes set by the constructors are the ones matches() tests; every dispatch overrider runs its handler exactly when matches() held; registration functions append one option built from their arguments with selectors in order; url_dispatcher::dispatch hands on the request method of the context or none. mount_point copy construction / assignment take every pattern and selector from the source (C20.R8). The last component of a mapping key is compared with "." / ".." on every way to the lookup, with or without a keyword list (C20.R7); the stream buffer generated URLs are collected in keeps the byte that did not fit when it grows (C20.R8).',
 'C08': 'A hash-map node whose construction throws is given back to the allocator (C08.R6).',
 'C09': 'Members of the cache hash map that the lockset treats as reads (find, size, const members) write no field of the container, transitively (C09.R5).',
}
for _pid, _t in EXTRA.items():
    CLAIMS[_pid]['text'] += ' ' + _t
for _pid, _t in EXTRA2.items():
    CLAIMS[_pid]['text'] += ' ' + _t
