"""Per-property claim texts for MANIFEST.json (what is decided, what is assumed)."""
CLAIMS = {}
NOT_APPLICABLE = {}

CLAIMS['C05'] = dict(
    category='other',
    technique='static analysis: edge-sensitive CFG domination (cut-set reachability) + provenance over the clang AST/CFG',
    text='Decides, on every CFG path of every overrider of encryptor::decrypt (found through the class hierarchy) and of session_cookies::load/save, '
         'the code-shape clauses of the property: plain text is written, CBC-decrypted or accepted only after the constant-time MAC comparison succeeded over digest_size bytes; '
         'the expiry copied out of the authenticated plain text is compared with time() before success; every rejected non-empty cookie is cleared; '
         'configuration cannot reach CBC without a MAC, HMAC keys < 16 bytes throw, a fresh CBC object gets a random IV. Holds for all inputs because it is a path property; '
         'it is a necessary condition of authenticity, not a proof of cryptographic strength.',
    note='Trusted: clang front end, the extractor, the non-mutating-accessor table of vlib/q.py. Not decided: cryptographic strength of HMAC/AES, byte-exact save/load round trip, base64 canonical form.')
