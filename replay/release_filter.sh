#!/bin/bash
# usage: release_filter.sh <build dir of cppcms> [port]   exit 0: the service answered the POST and is alive afterwards; exit 1: it died
B=${1:-/repo/_build}; PORT=${2:-8099}
T=$(mktemp -d)
g++ -std=gnu++17 -O1 -I/repo -I/repo/booster -I$B -I$B/booster "$(dirname "$0")/release_filter_app.cpp" -o $T/app -L$B -L$B/booster -lcppcms -lbooster -Wl,-rpath,$B -Wl,-rpath,$B/booster || exit 2
cat > $T/c.js <<EOF
{ "service" : { "api" : "http", "port" : $PORT, "ip" : "127.0.0.1" }, "http" : { "script_names" : [ "/raw" ] } }
EOF
$T/app -c $T/c.js & PID=$!
sleep 1
python3 - $PORT <<'PY'
import socket,sys,time
port=int(sys.argv[1])
body=b'x'*20000
s=socket.create_connection(('127.0.0.1',port),timeout=3)
s.sendall(b'POST /raw HTTP/1.0\r\nHost: x\r\nContent-Type: application/octet-stream\r\nContent-Length: %d\r\n\r\n'%len(body))
time.sleep(0.3)
s.sendall(body)
try:
    r=s.recv(4096)
except OSError as e:
    r=b''
print('reply: %r'%r[:60])
PY
sleep 0.5
if kill -0 $PID 2>/dev/null; then echo "service alive"; kill $PID; wait $PID 2>/dev/null; rm -rf $T; exit 0; fi
wait $PID; echo "service died, status $?"; rm -rf $T; exit 1
