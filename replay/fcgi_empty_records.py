#!/usr/bin/env python3
"""Concrete replay of C02.R5 [on_start_request>parse_pairs:front-nonempty]: name-value records with an empty body.
 case A: FCGI_GET_VALUES with contentLength 0              -> the service must stay alive and answer GET_VALUES_RESULT
 case B: BEGIN_REQUEST(responder) + empty PARAMS + empty STDIN -> the service must stay alive (a reply or a clean close)
usage: <proto_test> -c /repo/tests/proto_test.js --test-async=nonblocking --service-api=fastcgi --service-socket=/tmp/S \
          "--test-exec=python3 /verif/replay/fcgi_empty_records.py /tmp/S"
exit 0: both survived; exit 1: the service died (connection refused afterwards)."""
import socket, struct, sys, time
path = sys.argv[1]
def conn():
    s = socket.socket(socket.AF_UNIX, socket.SOCK_STREAM)
    for _ in range(50):
        try:
            s.connect(path)
            return s
        except OSError:
            time.sleep(0.1)
    return None
def rec(t, rid, body=b''):
    return struct.pack('>BBHHBB', 1, t, rid, len(body), 0, 0) + body
def alive():
    s = conn()
    if s is None:
        return False
    s.close()
    return True
bad = 0
s = conn()
s.settimeout(2)
s.sendall(rec(9, 0))            # GET_VALUES, empty
try:
    r = s.recv(64)
except (socket.timeout, OSError):
    r = b''
s.close()
time.sleep(0.3)
print('case A (empty GET_VALUES): reply %s, service alive afterwards: %s' % (r.hex() or '-', alive()))
if not alive():
    bad += 1
s = conn()
if s is not None:
    s.settimeout(2)
    s.sendall(rec(1, 1, struct.pack('>HB5x', 1, 0)) + rec(4, 1) + rec(5, 1))
    try:
        r = s.recv(64)
    except (socket.timeout, OSError):
        r = b''
    s.close()
    time.sleep(0.3)
    print('case B (no PARAMS at all): reply %s, service alive afterwards: %s' % (r[:16].hex() or '-', alive()))
    if not alive():
        bad += 1
else:
    bad += 1
sys.exit(1 if bad else 0)
