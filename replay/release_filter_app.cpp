// Concrete replay of C12.R10 [request::release_content_filter: flags-follow-the-filter]: an application installs a raw content filter when the
// headers are ready and releases it again before the body arrives (it changed its mind).  The body then reaches request::on_content_progress.
// build + run: see replay/release_filter.sh
#include <cppcms/service.h>
#include <cppcms/application.h>
#include <cppcms/applications_pool.h>
#include <cppcms/http_request.h>
#include <cppcms/http_response.h>
#include <cppcms/http_content_filter.h>
#include <cppcms/mount_point.h>
#include <iostream>
class app : public cppcms::application, public cppcms::http::raw_content_filter {
public:
	app(cppcms::service &s) : cppcms::application(s) {}
	void on_data_chunk(void const *, size_t) {}
	void on_end_of_content() {}
	void main(std::string)
	{
		if(!request().is_ready()) {
			request().set_content_filter(*this);
			request().release_content_filter();   // not owned: returns 0, the request keeps no filter
			return;
		}
		response().out() << "ok " << request().content_length();
	}
};
int main(int argc, char **argv)
{
	try {
		cppcms::service srv(argc, argv);
		srv.applications_pool().mount(cppcms::create_pool<app>(), cppcms::mount_point("/raw"), cppcms::app::asynchronous | cppcms::app::content_filter);
		srv.run();
	}
	catch(std::exception const &e) {
		std::cerr << e.what() << std::endl;
		return 1;
	}
	return 0;
}
