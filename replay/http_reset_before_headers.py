#!/usr/bin/env python3
"""Concrete replay of C02.R2 [http::on_headers_read ... remote_endpoint(e).ip()]: a peer that sends a complete request head
and resets the connection (SO_LINGER 0) before the service looks at it. getpeername() then fails with ENOTCONN,
remote_endpoint(e) returns an empty endpoint and endpoint::ip() throws out of the protocol callback.
usage: <proto_test> -c /repo/tests/proto_test.js --test-async=async --service-api=http --service-port=PORT --service-ip=127.0.0.1 \
          "--test-exec=python3 /verif/replay/http_reset_before_headers.py PORT"
exit 0: the service is still answering afterwards; exit 1: it died."""
import socket, struct, sys, time
port = int(sys.argv[1])
def conn(tries=50):
    for _ in range(tries):
        try:
            return socket.create_connection(('127.0.0.1', port), timeout=2)
        except OSError:
            time.sleep(0.1)
    return None
def probe(tries=50):
    s = conn(tries)
    if s is None:
        return None
    try:
        s.sendall(b'GET /test HTTP/1.0\r\nHost: x\r\n\r\n')
        r = b''
        while True:
            c = s.recv(4096)
            if not c:
                break
            r += c
        return r
    except OSError as e:
        return None
    finally:
        s.close()
r0 = probe()
print('probe before: %r' % (r0[:40] if r0 else r0), flush=True)
dead = False
sent = 0
for rnd in range(25):
    for k in range(400):
        try:
            s = socket.create_connection(('127.0.0.1', port), timeout=0.5)
        except OSError:
            break
        s.setsockopt(socket.SOL_SOCKET, socket.SO_LINGER, struct.pack('ii', 1, 0))
        s.send(b'GET /test HTTP/1.0\r\nHost: x\r\n\r\n')
        s.close()          # RST
        sent += 1
    time.sleep(0.3)
    r1 = probe(2)
    if not r1:
        dead = True
        break
print('probe after %d connections reset right behind their request head: %r' % (sent, r1[:40] if r1 else r1), flush=True)
sys.exit(1 if dead else 0)
