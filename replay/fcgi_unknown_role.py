#!/usr/bin/env python3
"""Concrete replay of the finding of C02.R5 [on_start_request:front-nonempty]: a FastCGI BEGIN_REQUEST with a role other than
RESPONDER must be answered with an END_REQUEST record whose 8-byte body carries protocolStatus = FCGI_UNKNOWN_ROLE (3).
usage (the service is started by the repo's own test driver, nothing of /verif runs inside it):
  /repo/_build/proto_test -c /repo/tests/proto_test.js --test-async=nonblocking --service-api=fastcgi \
      --service-socket=/tmp/S "--test-exec=python3 /verif/replay/fcgi_unknown_role.py /tmp/S"
exit 0: correct answer; exit 1: defect shown."""
import socket, struct, sys, time
path = sys.argv[1]
s = socket.socket(socket.AF_UNIX, socket.SOCK_STREAM)
for _ in range(50):
    try:
        s.connect(path)
        break
    except OSError:
        time.sleep(0.1)
s.settimeout(3)
# header: version=1 type=1(BEGIN_REQUEST) requestId=1 contentLength=8 padding=0 ; body: role=2 (AUTHORIZER) flags=1 (KEEP_CONN)
s.sendall(struct.pack('>BBHHBB', 1, 1, 1, 8, 0, 0) + struct.pack('>HB5x', 2, 1))
def recvn(n):
    b = b''
    while len(b) < n:
        c = s.recv(n - len(b))
        if not c:
            break
        b += c
    return b
try:
    hdr = recvn(8)
except socket.timeout:
    hdr = b''
if len(hdr) < 8:
    print('DEFECT: no reply record (got %d bytes)' % len(hdr))
    sys.exit(1)
ver, typ, rid, clen, plen, _ = struct.unpack('>BBHHBB', hdr)
try:
    body = recvn(clen + plen) if clen + plen else b''
except socket.timeout:
    body = b''
print('reply: type=%d requestId=%d contentLength=%d padding=%d body=%s' % (typ, rid, clen, plen, body.hex()))
ok = typ == 3 and clen == 8 and len(body) >= 8 and body[4] == 3
print('OK: END_REQUEST with protocolStatus FCGI_UNKNOWN_ROLE' if ok else 'DEFECT: the END_REQUEST record has no (or a wrong) body: contentLength=%d, expected 8 with protocolStatus 3' % clen)
sys.exit(0 if ok else 1)
