"""E2 core: the loaded program model (functions, trees, CFGs, class hierarchy) and the
generic analyses the rules are written in (edge-sensitive reachability / domination,
reaching definitions, condition normalisation)."""
import re, collections, os
from .build import AnalysisBroken

TRANSPARENT = {'ParenExpr', 'ImplicitCastExpr', 'ExprWithCleanups', 'MaterializeTemporaryExpr',
               'CXXBindTemporaryExpr', 'ConstantExpr', 'SubstNonTypeTemplateParmExpr'}
CALL_KINDS = {'CallExpr', 'CXXMemberCallExpr', 'CXXOperatorCallExpr', 'CXXConstructExpr', 'CXXTemporaryObjectExpr'}


def strip_targs(name):
    """cppcms::impl::mem_cache<cppcms::impl::process_settings>::store -> cppcms::impl::mem_cache::store"""
    out, depth = [], 0
    i = 0
    while i < len(name):
        c = name[i]
        if c == '<' and not name.startswith('operator<', max(0, i - 8), i + 1):
            depth += 1
        elif c == '>' and depth > 0 and not (name.startswith('operator->', max(0, i - 9), i + 1)):
            depth -= 1
        elif depth == 0:
            out.append(c)
        i += 1
    return ''.join(out)


class Block(object):
    __slots__ = ('id', 'elems', 'term', 'tcond', 'label', 'succ', 'usucc', 'preds', 'tdbranch')


_NEG_OP = {'==': '!=', '!=': '==', '<': '>=', '>=': '<', '<=': '>', '>': '<='}
_SWAP_OP = {'==': '==', '!=': '!=', '<': '>', '>': '<', '<=': '>=', '>=': '<='}


class Fn(object):
    def __init__(self, d, unit):
        self.d = d
        self.unit = unit
        self.id = d['id']
        self.name = d['name']
        self.bname = strip_targs(d['name'])
        self.short = d['short']
        self.file = d['file']
        self.line = d['line']
        self.endline = d['endline']
        self.record = d.get('record')
        self.brecord = strip_targs(self.record) if self.record else None
        self.kind = d['kind']
        self.params = d['params']
        self.nodes = d['nodes']
        self.body = d['body']
        self.types = unit['types']
        self.ret = d.get('ret')
        self.parent = {}
        for i, n in enumerate(self.nodes):
            n['i'] = i
            for c in n['ch']:
                self.parent[c] = i
        self._n_own = len(self.nodes)      # nodes beyond this index are inlined predicate copies (inline_pred)
        self._inl = {}
        self._mkcfg(d.get('cfg'))

    def __repr__(self):
        return '<Fn %s %s:%d>' % (self.id, self.file, self.line)

    @property
    def where(self):
        return '%s:%d' % (self.file, self.line)

    # ---------------- tree helpers ----------------
    def N(self, i):
        return self.nodes[i]

    def type_of(self, n):
        if isinstance(n, int):
            n = self.nodes[n]
        t = n.get('t')
        return self.types[t] if t is not None else None

    def strip(self, i):
        """skip parentheses / implicit casts / temporaries"""
        while True:
            n = self.nodes[i]
            if n['k'] in TRANSPARENT and n['ch']:
                i = n['ch'][0]
            elif n['k'] == 'CXXConstructExpr' and n.get('elide') and len(n['ch']) == 1:
                i = n['ch'][0]
            else:
                return i

    def walk(self, root=None):
        stack = [self.body if root is None else root]
        # flattened view (vlib/inline.py): the statements of an inlined helper hang below its call node; a walk that starts at a
        # statement (or at the whole body) sees them, a walk over an expression does not
        deep = root is None or self.nodes[root]['k'].endswith('Stmt')
        while stack:
            i = stack.pop()
            yield i
            n = self.nodes[i]
            if deep and 'inl' in n:
                stack.extend(reversed(n['inl']))
            stack.extend(reversed(n['ch']))

    def all_nodes(self):
        """every node including ctor initialisers"""
        return range(self._n_own)

    # ---------------- predicate helpers seen through ----------------
    _STMT_KEYS = ('init', 'cond', 'then', 'else', 'body', 'lhs', 'sub', 'decls', 'cvar', 'inc', 'range', 'handlers')

    def _helper_ctx(self, call):
        """(helper Fn, {param ref -> argument node}) for a call of a resolved, non-virtual function of the same unit
        (free / static, or a method of the same class called on `this`); None otherwise"""
        P = getattr(self, 'P', None)
        n = self.nodes[call]
        if P is None or n['k'] not in ('CallExpr', 'CXXMemberCallExpr') or not n.get('callee') or n.get('virt'):
            return None
        g = P.fns.get(n['callee'])
        if g is not None and g.types is not self.types:
            g = P.fn_in_unit(g.id, self.unit)
        if g is None or g is self or g.types is not self.types or g.body is None or g.body < 0 or g.entry is None:
            return None
        if n['k'] == 'CXXMemberCallExpr':
            o = self.obj(call)
            if g.record != self.record or o is None or self.nodes[self.strip(o)]['k'] != 'CXXThisExpr':
                return None
        elif g.kind not in ('function',) and g.record and g.record != self.record:
            return None
        args = self.args(call)
        if len(args) != len(g.params):
            return None
        # a parameter the helper modifies (n -= res; ++p) does not stand for the caller's argument any more: it stays opaque
        g.defs_of_var('')
        amap = {}
        for p, a in zip(g.params, args):
            pt = (g.types[p['t']] or '').strip()
            const_ref = pt.endswith('&') and not pt.endswith('&&') and pt.startswith('const ') and '*' not in pt
            if len(g._defs.get(p['ref'], [])) == 0 or const_ref:       # `T const &`: taking its address / passing it on cannot modify it
                amap[p['ref']] = a
        return g, amap

    def _import(self, g, j, amap, call, strict=True):
        """copy of expression j of helper g in this function's node table, parameters replaced by the argument nodes of `call`;
        locals of the helper stay opaque (`h:` refs) unless strict, then ValueError"""
        key = (g.id, j, call, strict)
        if not hasattr(self, '_imp'):
            self._imp = {}
        if key in self._imp:
            if self._imp[key] is None:
                raise ValueError('cached')
            return self._imp[key]
        line = self.nodes[call]['l']

        def clone(x):
            m = g.nodes[x]
            if any(k in m for k in self._STMT_KEYS) or m['k'] in ('LambdaExpr', 'StmtExpr'):
                raise ValueError(m['k'])
            if m['k'] == 'DeclRefExpr' and m.get('ref') in amap:
                return amap[m['ref']]
            c = dict(m)
            if m['k'] == 'DeclRefExpr' and m.get('ref', '').startswith(('v:', 'p:')):
                if strict:
                    raise ValueError('local')
                c['ref'] = 'h:' + m['ref']
            c['l'] = line
            c['inl'] = call
            i = len(self.nodes)
            c['i'] = i
            self.nodes.append(c)
            c['ch'] = [clone(y) for y in m['ch']]
            for y in c['ch']:
                if y >= self._n_own:
                    self.parent[y] = i
            return i
        keep = len(self.nodes)
        try:
            r = clone(j)
        except ValueError:
            del self.nodes[keep:]
            self._imp[key] = None
            raise
        self._imp[key] = r
        return r

    def inline_pred(self, call):
        """`helper(a, b)` where helper is a resolved, non-virtual function of the same unit whose whole body is
        `return E;`: a copy of E in this function's node table with the parameters replaced by the argument
        expressions, so that the facts a branch on the call implies can be read off E.  None when not applicable."""
        if call in self._inl:
            return self._inl[call]
        self._inl[call] = None
        hc = self._helper_ctx(call)
        if hc is None:
            return None
        g, amap = hc
        b = g.nodes[g.body]
        if b['k'] != 'CompoundStmt' or len(b['ch']) != 1 or g.nodes[b['ch'][0]]['k'] != 'ReturnStmt' or not g.nodes[b['ch'][0]]['ch']:
            return None
        try:
            root = self._import(g, g.nodes[b['ch'][0]]['ch'][0], amap, call, strict=True)
        except ValueError:
            return None
        self._inl[call] = root
        return root

    def helper_implies(self, pred, call, pol):
        """a bool helper with several returns: does `call` evaluating to `pol` imply a fact accepted by pred?  True iff every
        return of the helper that can yield `pol` is reachable only through branch edges (of the helper) whose facts, re-expressed
        over the caller's arguments, pred accepts"""
        hc = self._helper_ctx(call)
        if hc is None or getattr(self, '_hi_depth', 0) >= 2:
            return False
        g, amap = hc
        if not (g.ret or '').replace('const ', '').strip() in ('bool', '_Bool'):
            return False

        def pred_g(a, p):
            try:
                j = self._import(g, a, amap, call, strict=False)
            except ValueError:
                return False
            return pred(j, p)
        rets = []
        for r in g.returns():
            v = g.ret_value(r)
            if v is None:
                return False
            cv = g.const_value(v)
            if cv is None:
                rets.append((r, v))                    # may be either
            elif bool(cv) == bool(pol):
                rets.append((r, None))
        if not rets:
            return False
        self._hi_depth = getattr(self, '_hi_depth', 0) + 1
        g._hi_depth = getattr(g, '_hi_depth', 0) + 1
        try:
            gates = [e for e in g.gate_edges(pred_g) if len(e) == 4]
            for (r, v) in rets:
                if g.only_through(r, gates):
                    continue
                if v is not None and any(g.fact_satisfies(pred_g, a, p) for (a, p) in g.cond_facts(v, pol)):
                    continue
                return False
            return True
        finally:
            self._hi_depth -= 1
            g._hi_depth -= 1

    def ancestors(self, i):
        while i in self.parent:
            i = self.parent[i]
            yield i

    def loc(self, i):
        return '%s:%d' % (self.file, self.nodes[i]['l'])

    def is_call(self, i):
        return self.nodes[i]['k'] in CALL_KINDS

    def calls(self, root=None):
        it = self.walk(root) if root is not None else self.all_nodes()
        for i in it:
            if self.nodes[i]['k'] in CALL_KINDS:
                yield i

    def calls_deep(self, depth=1):
        """own call nodes plus, for every call of a same-unit helper (see _helper_ctx), copies of the helper's call nodes with the
        helper's parameters replaced by the arguments of that call.  A copy takes the CFG position of the call site, so
        domination queries treat it as happening where the helper is called."""
        out = list(self.calls())
        if depth <= 0:
            return out
        for c in list(out):
            hc = self._helper_ctx(c)
            if hc is None:
                continue
            g, amap = hc
            for j in g.calls():
                try:
                    k = self._import(g, j, amap, c, strict=False)
                except ValueError:
                    continue
                if c in self.pos and k not in self.pos:
                    self.pos[k] = self.pos[c]
                out.append(k)
        return out

    def callee(self, i):
        return self.nodes[i].get('cn')

    def bcallee(self, i):
        c = self.nodes[i].get('cn')
        return strip_targs(c) if c else None

    def args(self, i):
        """argument node ids of a call (object argument excluded for member calls)"""
        n = self.nodes[i]
        k = n['k']
        if k in ('CXXConstructExpr', 'CXXTemporaryObjectExpr'):
            return list(n['ch'])
        if k == 'CXXOperatorCallExpr':
            a = list(n['ch'][1:])
            # member operators: first is the object
            return a
        return list(n['ch'][1:])

    def obj(self, i):
        """object expression of a member call (node id) or None"""
        n = self.nodes[i]
        if n['k'] == 'CXXMemberCallExpr':
            m = self.strip(n['ch'][0])
            mn = self.nodes[m]
            if mn['k'] == 'MemberExpr' and mn['ch']:
                return mn['ch'][0]
        if n['k'] == 'CXXOperatorCallExpr' and len(n['ch']) > 1 and n.get('rec'):
            return n['ch'][1]
        return None

    def ref_of(self, i):
        """decl reference of a (stripped) DeclRefExpr/MemberExpr, else None"""
        i = self.strip(i)
        n = self.nodes[i]
        if n['k'] in ('DeclRefExpr', 'MemberExpr'):
            return n.get('ref')
        return None

    def access_path(self, i):
        """tuple of refs for a chain of member accesses rooted at this/var, or None.
        this->a.b -> ('this','f:..a','f:..b');  x.y -> ('v:x@1','f:..y')"""
        i = self.strip(i)
        n = self.nodes[i]
        k = n['k']
        if k == 'CXXThisExpr':
            return ('this',)
        if k == 'DeclRefExpr':
            # a local reference bound once to a member path (`buffers_type &buffers = d->buffers;`) stands for that path
            al = self._ref_alias(n['ref'])
            if al is not None:
                return al
            return (n['ref'],)
        if k == 'MemberExpr':
            if not n['ch']:
                return (n['ref'],)
            b = self.access_path(n['ch'][0])
            if b is None:
                return None
            return b + (n['ref'],)
        if k == 'UnaryOperator' and n.get('op') in ('*', '&'):
            return self.access_path(n['ch'][0])
        if k == 'CXXOperatorCallExpr' and n.get('op') in ('->', '*') and len(n['ch']) == 2:
            return self.access_path(n['ch'][1])
        if k == 'CXXMemberCallExpr' and n.get('cn', '').endswith(('::get', '::operator->')):
            o = self.obj(i)
            if o is not None:
                return self.access_path(o)
        return None

    def _ref_alias(self, ref):
        if not ref.startswith('v:'):
            return None
        if not hasattr(self, '_aliases'):
            self._aliases = {}
            for j in range(len(self.nodes)):
                m = self.nodes[j]
                if m['k'] == 'DeclStmt':
                    for d in m.get('decls', []):
                        if d.get('isref') and d.get('init') is not None:
                            self._aliases[d['ref']] = d['init']
        if ref not in self._aliases or self._aliases[ref] is None:
            return None
        init = self._aliases[ref]
        self._aliases[ref] = None          # recursion guard
        try:
            ap = self.access_path(init)
        finally:
            self._aliases[ref] = init
        if ap and len(ap) >= 2 and ap[-1].startswith('f:'):
            return ap
        return None

    def subtree_refs(self, i):
        out = set()
        for j in self.walk(i):
            r = self.nodes[j].get('ref')
            if r:
                out.add(r)
        return out

    def contains(self, root, target):
        """is node `target` inside the subtree of `root`"""
        j = target
        while True:
            if j == root:
                return True
            if j not in self.parent:
                return False
            j = self.parent[j]

    def const_value(self, i):
        v = self.nodes[self.strip(i)].get('cv', self.nodes[i].get('cv'))
        if v is None and getattr(self, 'P', None) is not None:
            n = self.nodes[self.strip(i)]
            if n['k'] in CALL_KINDS and n.get('callee') and not n.get('virt'):
                v = self.P.const_return(n['callee'])
        return v

    def enclosing(self, i, kinds):
        for a in self.ancestors(i):
            if self.nodes[a]['k'] in kinds:
                return a
        return None

    # ---------------- CFG ----------------
    def _mkcfg(self, c):
        self.blocks = {}
        self.entry = self.exit = None
        self.pos = {}  # node id -> (block id, elem index)
        if not c:
            return
        self.entry, self.exit = c['entry'], c['exit']
        for b in c['blocks']:
            B = Block()
            B.id = b['id']
            B.elems = b['elems']
            B.term = b.get('term')
            B.tcond = b.get('tcond')
            B.label = b.get('label')
            B.tdbranch = b.get('tdbranch', 0)
            B.succ = []
            B.usucc = []
            for s in b['succ']:
                if s is None:
                    B.succ.append(None)
                elif s < 0:
                    B.succ.append(None)
                    B.usucc.append(-s - 1)
                else:
                    B.succ.append(s)
            B.preds = []
            self.blocks[B.id] = B
            for idx, e in enumerate(B.elems):
                if 'n' in e and 'init' not in e:
                    self.pos.setdefault(e['n'], (B.id, idx))
                elif 'init' in e and 'n' in e:
                    self.pos.setdefault(e['n'], (B.id, idx))
        for B in self.blocks.values():
            for s in B.succ:
                if s is not None:
                    self.blocks[s].preds.append(B.id)
            # jump statements are terminators, not elements
            if B.term is not None and self.nodes[B.term]['k'] in ('BreakStmt', 'ContinueStmt', 'GotoStmt'):
                self.pos.setdefault(B.term, (B.id, len(B.elems)))
        # CXXTryStmt dispatch blocks have no predecessor without EH edges: remember them
        self.try_blocks = [B.id for B in self.blocks.values()
                           if B.term is not None and self.nodes[B.term]['k'] == 'CXXTryStmt']

    def point_of(self, i):
        """CFG position of a node: itself if it is an element, else its first descendant /
        nearest ancestor that is one."""
        if i in self.pos:
            return self.pos[i]
        for j in self.walk(i):
            if j in self.pos:
                return self.pos[j]
        for a in self.ancestors(i):
            if a in self.pos:
                return self.pos[a]
        return None

    def last_point_of(self, i):
        """position at which the whole expression `i` has been evaluated"""
        if i in self.pos:
            return self.pos[i]
        best = None
        for j in self.walk(i):
            if j in self.pos:
                best = self.pos[j]
        return best

    def leaf_cond(self, B):
        """(condition node, is_switch) controlling B's out edges, or None"""
        if B.term is None or B.tcond is None:
            return None
        t = self.nodes[B.term]
        if t['k'] == 'SwitchStmt':
            return (B.tcond, True)
        if B.tdbranch:
            return None
        if t['k'] in ('CXXTryStmt', 'GotoStmt', 'IndirectGotoStmt', 'BreakStmt', 'ContinueStmt'):
            return None
        c = B.tcond
        if t['k'] == 'BinaryOperator' and t.get('op') in ('&&', '||'):
            return (c, False)  # clang gives the LHS
        here = self.pos          # a logical operator that is a CFG element anywhere was materialised as a value
        while True:
            s = self.strip(c)
            n = self.nodes[s]
            if n['k'] == 'BinaryOperator' and n.get('op') in ('&&', '||'):
                if s in here:
                    # confluence form (the operator was not lowered to branches, e.g. under
                    # ExprWithCleanups): this block tests the value of the whole expression
                    return (s, False)
                c = n['ch'][1]
            else:
                return (s, False)

    def edges(self):
        """yield (from_block, to_block, label) ; label: True/False for branches,
        ('case', value) / 'default' for switches, None otherwise"""
        for B in self.blocks.values():
            lc = self.leaf_cond(B)
            for idx, s in enumerate(B.succ):
                if s is None:
                    continue
                lab = None
                if lc is not None:
                    if lc[1]:
                        L = self.blocks[s].label
                        if L is not None and self.nodes[L]['k'] == 'CaseStmt':
                            lab = ('case', self.nodes[self.nodes[L]['lhs']].get('cv'))
                        elif L is not None and self.nodes[L]['k'] == 'DefaultStmt':
                            lab = 'default'
                        else:
                            lab = 'default'  # switch without default: implicit fall-out edge
                    elif len(B.succ) == 2:
                        lab = (idx == 0)
                yield (B.id, s, lab)

    def succ_edges(self, bid):
        B = self.blocks[bid]
        lc = self.leaf_cond(B)
        out = []
        for idx, s in enumerate(B.succ):
            if s is None:
                continue
            lab = None
            if lc is not None:
                if lc[1]:
                    L = self.blocks[s].label
                    if L is not None and self.nodes[L]['k'] == 'CaseStmt':
                        lab = ('case', self.nodes[self.nodes[L]['lhs']].get('cv'))
                    else:
                        lab = 'default'
                elif len(B.succ) == 2:
                    lab = (idx == 0)
            out.append((s, lab))
        return out

    # facts implied by taking an edge
    def cond_facts(self, cond, polarity, depth=0):
        """list of (atom node id, polarity) implied when `cond` evaluates to `polarity`.
        Atoms are stripped non-logical expressions.  bool locals with a single
        definition are expanded to their defining expression."""
        i = self.strip(cond)
        n = self.nodes[i]
        k = n['k']
        if k == 'UnaryOperator' and n.get('op') == '!':
            return self.cond_facts(n['ch'][0], not polarity, depth)
        if k == 'CXXOperatorCallExpr' and n.get('op') == '!' and len(n['ch']) == 2:
            return [(i, polarity)] + self.cond_facts(n['ch'][1], not polarity, depth)
        if k == 'BinaryOperator' and n.get('op') == '&&':
            if polarity:
                return self.cond_facts(n['ch'][0], True, depth) + self.cond_facts(n['ch'][1], True, depth)
            return [(i, polarity)]
        if k == 'BinaryOperator' and n.get('op') == '||':
            if not polarity:
                return self.cond_facts(n['ch'][0], False, depth) + self.cond_facts(n['ch'][1], False, depth)
            return [(i, polarity)]
        out = [(i, polarity)]
        if k in ('BinaryOperator', 'CXXOperatorCallExpr') and n.get('op') in _NEG_OP and not n.get('syn'):
            # equivalent spellings of the same fact: a != b false == (a == b) true, a < b == b > a, ...  Rules written for one
            # spelling then hold for all of them (synthetic nodes, outside all_nodes())
            for (j, flip) in self._cmp_twins(i):
                out.append((j, polarity if not flip else (not polarity)))
        if k in ('CallExpr', 'CXXMemberCallExpr') and depth < 3:
            root = self.inline_pred(i)
            if root is not None:
                out += self.cond_facts(root, polarity, depth + 1)
        if k == 'DeclRefExpr' and depth < 3 and n.get('ref', '').startswith('v:'):
            src = self.flag_source(n['ref'])
            if src is not None:
                if polarity or src[1]:
                    out += self.cond_facts(src[0], polarity, depth + 1)
        return out

    def _cmp_twins(self, i):
        if not hasattr(self, '_twins'):
            self._twins = {}
        if i in self._twins:
            return self._twins[i]
        n = self.nodes[i]
        res = []
        ops = [(_NEG_OP[n['op']], True, False)]
        binop = n['k'] == 'BinaryOperator' and len(n['ch']) == 2
        opcall = n['k'] == 'CXXOperatorCallExpr' and len(n['ch']) == 3          # [callee, a, b]: a user-defined comparison
        if binop or opcall:
            ops += [(_SWAP_OP[n['op']], False, True), (_NEG_OP[_SWAP_OP[n['op']]], True, True)]
        for (op, flip, swap) in ops:
            c = {k_: v_ for k_, v_ in n.items() if k_ not in ('cv', 'cn', 'callee', 'ov', 'rec')}
            c['op'] = op
            c['syn'] = 1
            if not swap:
                c['ch'] = list(n['ch'])
            elif binop:
                c['ch'] = list(reversed(n['ch']))
            else:
                c['ch'] = [n['ch'][0], n['ch'][2], n['ch'][1]]
            c['i'] = len(self.nodes)
            self.nodes.append(c)
            res.append((c['i'], flip))
        self._twins[i] = res
        return res

    def flag_source(self, ref):
        """(expr, exact) such that  flag==true  implies  expr==true  (and, when exact, flag==false implies expr==false).
        Single definition: the defining expression, exact.  Several definitions: the first one, provided every
        later definition sits only on paths where the flag was already tested true (a re-assignment can then
        only weaken the flag, so `true` still implies the first expression); not exact."""
        if not hasattr(self, '_flagsrc'):
            self._flagsrc = {}
        if ref in self._flagsrc:
            return self._flagsrc[ref]
        self._flagsrc[ref] = None
        defs = [d for d in self.defs_of_var(ref)]
        res = None
        if len(defs) == 1 and defs[0][1] is not None:
            res = (defs[0][1], True)
        elif len(defs) > 1 and all(v is not None for (_, v) in defs):
            decl = [d for d in defs if self.nodes[d[0]]['k'] == 'DeclStmt']
            if len(decl) == 1:
                gates = []
                for B in self.blocks.values():
                    lc = self.leaf_cond(B)
                    if lc is None or lc[1]:
                        continue
                    for (s2, lab) in self.succ_edges(B.id):
                        if lab is True and self._plain_true(lc[0], ref):
                            gates.append((B.id, s2, lab))
                ok = True
                for (dnode, v) in defs:
                    if dnode == decl[0][0]:
                        continue
                    p = self.point_of(dnode)
                    if p is None or p[0] in self.reachable_blocks(cut_edges=gates):
                        ok = False
                if ok:
                    res = (decl[0][1], False)
        self._flagsrc[ref] = res
        return res

    def _plain_true(self, cond, ref):
        """does `cond` being true imply that variable ref is true (ref itself, or a conjunction containing it)"""
        i = self.strip(cond)
        n = self.nodes[i]
        if n['k'] == 'DeclRefExpr':
            return n.get('ref') == ref
        if n['k'] == 'BinaryOperator' and n.get('op') == '&&':
            return self._plain_true(n['ch'][0], ref) or self._plain_true(n['ch'][1], ref)
        return False

    # simple syntactic definitions of a local variable: [(node, value-expr or None)]
    def defs_of_var(self, ref):
        if not hasattr(self, '_defs'):
            self._defs = collections.defaultdict(list)
            for i in self.all_nodes():
                n = self.nodes[i]
                k = n['k']
                if k == 'DeclStmt':
                    for d in n['decls']:
                        self._defs[d['ref']].append((i, d.get('init')))
                elif k in ('BinaryOperator', 'CompoundAssignOperator') and n.get('op', '').endswith('=') and n.get('op') not in ('==', '!=', '<=', '>='):
                    r = self.ref_of(n['ch'][0])
                    if r:
                        self._defs[r].append((i, n['ch'][1] if n['op'] == '=' else None))
                elif k == 'UnaryOperator' and n.get('op') in ('++', '--'):
                    r = self.ref_of(n['ch'][0])
                    if r:
                        self._defs[r].append((i, None))
                elif k == 'UnaryOperator' and n.get('op') == '&':
                    r = self.ref_of(n['ch'][0])
                    if r and r.startswith(('v:', 'p:')):
                        self._defs[r].append((i, None))
                elif k == 'CXXOperatorCallExpr' and n.get('op', '').endswith('=') and n.get('op') not in ('==', '!=', '<=', '>=') and len(n['ch']) >= 3:
                    r = self.ref_of(n['ch'][1])
                    if r:
                        self._defs[r].append((i, n['ch'][2] if n['op'] == '=' else None))
                elif k in CALL_KINDS:
                    ov = n.get('ov') or []
                    for a, pt in zip(self.args(i), ov):
                        if _mutable_ref(pt):
                            r = self.ref_of(a)
                            if r and r.startswith(('v:', 'p:')):
                                self._defs[r].append((i, None))
        return self._defs.get(ref, [])

    # ---------------- reaching definitions ----------------
    def reaching_defs(self, ref, use_node):
        """def nodes (see defs_of_var) of variable `ref` that reach `use_node` (strong updates)"""
        defs = dict((d, v) for (d, v) in self.defs_of_var(ref))
        dpos = {}
        for d in defs:
            p = self.point_of(d)
            if p is not None:
                dpos.setdefault(p[0], []).append((p[1], d))
        for b in dpos:
            dpos[b].sort()
        IN = {self.entry: frozenset(['<entry>'])}
        OUT = {}
        work = [self.entry]
        while work:
            b = work.pop()
            cur = IN[b]
            for (_, d) in dpos.get(b, []):
                cur = frozenset([d])
            if OUT.get(b) == cur:
                continue
            OUT[b] = cur
            for (s, _) in self.succ_edges(b):
                new = cur if s not in IN else (IN[s] | cur)
                if s not in IN or new != IN[s]:
                    IN[s] = new
                    work.append(s)
                elif s not in OUT:
                    work.append(s)
        p = self.point_of(use_node)
        if p is None or p[0] not in IN:
            return set()
        cur = IN[p[0]]
        for (ix, d) in dpos.get(p[0], []):
            if ix < p[1]:
                cur = frozenset([d])
        return set(cur)

    def def_reaches_only_through(self, ref, def_node, use_node, gates):
        """every path def -> use on which the definition is not overwritten passes one of the gate edges"""
        other = [d for (d, _) in self.defs_of_var(ref) if d != def_node]
        pd, pu = self.point_of(def_node), self.point_of(use_node)
        kill = set()
        for d in other:
            p = self.point_of(d)
            if p is not None and p[0] != pu[0] and p[0] != pd[0]:
                kill.add(p[0])
        if pd[0] == pu[0] and pd[1] < pu[1]:
            return False
        seen = set()
        stack = []
        for (s, lab, tag) in self.state_succ(pd[0], None):
            if not self._is_cut(pd[0], s, lab, None, gates) and s not in kill:
                stack.append((s, tag))
        while stack:
            st = stack.pop()
            if st in seen:
                continue
            seen.add(st)
            b, tag = st
            if b == pu[0]:
                return False
            for (s, lab, stag) in self.state_succ(b, tag):
                if self._is_cut(b, s, lab, tag, gates) or s in kill:
                    continue
                stack.append((s, stag))
        return True

    def _is_cut(self, b, s, lab, tag, gates):
        for e in gates:
            if len(e) == 2 and e == (b, s):
                return True
            if len(e) == 3 and e == (b, s, lab):
                return True
            if len(e) == 4 and e == (b, s, lab, tag):
                return True
        return False

    # ---------------- reachability ----------------
    # Confluence blocks: when a logical operator is not lowered to branches (it sits under
    # ExprWithCleanups), clang joins the short-circuit edge and the RHS block in one block that
    # tests the value of the whole operator.  Reachability is made path-sensitive exactly there:
    # a state is (block, tag) with tag 'T'/'F' (value forced by the short-circuit edge taken),
    # 'R' (arrived after evaluating the RHS) or None.
    def _confluence(self, bid):
        """logical-operator node whose materialised value block `bid` branches on, else None"""
        if not hasattr(self, '_conf'):
            self._conf = {}
            self._join = {}
            for B in self.blocks.values():
                lc = self.leaf_cond(B)
                if lc and not lc[1]:
                    n = self.nodes[lc[0]]
                    if n['k'] == 'BinaryOperator' and n.get('op') in ('&&', '||') and lc[0] in self.pos:
                        self._conf[B.id] = lc[0]
                        self._join[self.pos[lc[0]][0]] = lc[0]
        return self._conf.get(bid)

    def _eval3(self, node, leaf, val):
        i = self.strip(node)
        if i == leaf:
            return val
        n = self.nodes[i]
        if n['k'] == 'UnaryOperator' and n.get('op') == '!':
            v = self._eval3(n['ch'][0], leaf, val)
            return None if v is None else (not v)
        if n['k'] == 'BinaryOperator' and n.get('op') in ('&&', '||'):
            a = self._eval3(n['ch'][0], leaf, val)
            b = self._eval3(n['ch'][1], leaf, val)
            if n['op'] == '&&':
                if a is False or b is False:
                    return False
                if a is True and b is True:
                    return True
                return None
            if a is True or b is True:
                return True
            if a is False and b is False:
                return False
            return None
        return None

    def _arrival_tag(self, b, s, lab, tag):
        """tag carried into block s: (L, 'T'|'F'|'R') while the value of logical operator L is pending"""
        rj = getattr(self, '_retjoin', None)
        if rj:
            if s in rj:
                # s branches on the value of an inlined helper call; b is one of the helper's return blocks
                return (('ret', s), rj[s][b]) if b in rj[s] else None
            if tag is not None and tag[0] == ('ret', b):
                tag = None
        self._confluence(s)
        L = self._join.get(s)
        if L is not None:
            B = self.blocks[b]
            if B.term is not None and lab in (True, False):
                t = self.nodes[B.term]
                if t['k'] == 'BinaryOperator' and t.get('op') in ('&&', '||') and (B.term == L or self.contains(L, B.term)):
                    lc = self.leaf_cond(B)
                    if lc:
                        v = self._eval3(L, self.strip(lc[0]), lab)
                        if v is True:
                            return (L, 'T')
                        if v is False:
                            return (L, 'F')
                        return None
            return (L, 'R')
        # leaving the block that tested the pending value clears the tag; otherwise it is carried along
        if tag is not None and self._confluence(b) == tag[0]:
            return None
        return tag

    def state_succ(self, b, tag):
        """[(succ block, label, succ tag)] from state (b, tag)"""
        out = []
        L = self._confluence(b)
        forced = tag[1] if (tag is not None and L is not None and tag[0] == L) else None
        if tag is not None and tag[0] == ('ret', b):
            forced = tag[1]
        for (s, lab) in self.succ_edges(b):
            if forced == 'T' and lab is False:
                continue
            if forced == 'F' and lab is True:
                continue
            out.append((s, lab, self._arrival_tag(b, s, lab, tag)))
        return out

    def _switch_eq(self, cond, v):
        """synthetic node `cond == v` for a switch edge (kept outside all_nodes(), like inlined predicate copies)"""
        if not hasattr(self, '_sweq'):
            self._sweq = {}
        key = (cond, v)
        if key not in self._sweq:
            line = self.nodes[cond]['l']
            lit = {'k': 'IntegerLiteral', 'l': line, 'c': 0, 'cv': v, 'ch': [], 'i': len(self.nodes), 'syn': 1}
            self.nodes.append(lit)
            eq = {'k': 'BinaryOperator', 'op': '==', 'l': line, 'c': 0, 'ch': [cond, lit['i']], 'i': len(self.nodes), 'syn': 1}
            self.nodes.append(eq)
            self.parent[lit['i']] = eq['i']
            self._sweq[key] = eq['i']
        return self._sweq[key]

    def edge_facts(self, frm, to_label, tag=None):
        B = self.blocks[frm]
        lc = self.leaf_cond(B)
        if lc is not None and lc[1]:
            # switch edge: `case v` implies cond == v; `default` implies cond != v for every case value of this switch
            if isinstance(to_label, tuple) and to_label[0] == 'case' and to_label[1] is not None:
                return [(self._switch_eq(lc[0], to_label[1]), True)]
            if to_label == 'default':
                vals = set()
                for s_ in B.succ:
                    if s_ is None:
                        continue
                    L_ = self.blocks[s_].label
                    if L_ is not None and self.nodes[L_]['k'] == 'CaseStmt' and self.nodes[self.nodes[L_]['lhs']].get('cv') is not None:
                        vals.add(self.nodes[self.nodes[L_]['lhs']]['cv'])
                return [(self._switch_eq(lc[0], v), False) for v in sorted(vals)]
            return []
        if lc is None or to_label not in (True, False):
            return []
        facts = self.cond_facts(lc[0], to_label)
        if tag is not None and tag[1] == 'R' and self._confluence(frm) == tag[0]:
            n = self.nodes[lc[0]]
            if (n['op'] == '&&' and to_label is False) or (n['op'] == '||' and to_label is True):
                facts = facts + self.cond_facts(n['ch'][1], to_label)
        return facts

    def reachable_states(self, start=None, cut_edges=(), cut_blocks=(), with_catch=True):
        cut2, cut3, cut4 = set(), set(), set()
        for e in cut_edges:
            if len(e) == 5:
                continue    # return pseudo gate, see gate_edges()
            (cut2 if len(e) == 2 else cut3 if len(e) == 3 else cut4).add(e)
        cutb = set(cut_blocks)
        if start is None:
            start = self.entry
        seen = set()
        seenb = set()
        stack = [(start, None)] if start not in cutb else []
        tryb = set(self.try_blocks) if with_catch else set()
        while stack:
            st = stack.pop()
            if st in seen:
                continue
            seen.add(st)
            b, tag = st
            seenb.add(b)
            for (s, lab, stag) in self.state_succ(b, tag):
                if (b, s) in cut2 or (b, s, lab) in cut3 or (b, s, lab, tag) in cut4 or s in cutb:
                    continue
                if (s, stag) not in seen:
                    stack.append((s, stag))
            for t in list(tryb):
                if t not in seenb and t not in cutb and self._try_covers(t, b):
                    stack.append((t, None))
        return seen

    def reachable_blocks(self, start=None, cut_edges=(), cut_blocks=(), with_catch=True):
        """blocks reachable from `start` (default entry) without crossing cut edges
        {(from,to)|(from,to,label)|(from,to,label,tag)} or entering cut blocks.  Catch handlers are
        considered reachable when a block of their try body is."""
        return set(b for (b, _) in self.reachable_states(start, cut_edges, cut_blocks, with_catch))

    def _try_covers(self, tryblock, b):
        """does block b contain a statement lexically inside the try body whose dispatch block is tryblock"""
        T = self.nodes[self.blocks[tryblock].term]
        body = T['body']
        B = self.blocks[b]
        for e in B.elems:
            if 'n' in e and self.contains(body, e['n']):
                return True
        if B.term is not None and self.contains(body, B.term):
            return True
        return False

    def fact_satisfies(self, pred, atom, pol, depth=0):
        """pred holds for the fact, or the fact is a disjunction (`a && b` false, `a || b` true) each arm of which
        implies a fact for which pred holds"""
        if pred(atom, pol):
            return True
        n = self.nodes[atom]
        if depth < 3 and n['k'] in ('CallExpr', 'CXXMemberCallExpr') and not n.get('syn') and self.helper_implies(pred, atom, pol):
            return True
        if depth < 3 and n['k'] == 'BinaryOperator' and ((n.get('op') == '&&' and pol is False) or (n.get('op') == '||' and pol is True)):
            return all(any(self.fact_satisfies(pred, a, p, depth + 1) for (a, p) in self.cond_facts(c, pol)) for c in n['ch'])
        return False

    def gate_edges(self, pred):
        """edges (from,to,label,tag) whose implied facts satisfy pred(atom, polarity)"""
        out = GateList()
        out.preds = [pred]
        for B in self.blocks.values():
            L = self._confluence(B.id)
            tags = [None] if L is None else [None, (L, 'T'), (L, 'F'), (L, 'R')]
            for tag in tags:
                for (s, lab, _) in self.state_succ(B.id, tag):
                    for (atom, pol) in self.edge_facts(B.id, lab, tag):
                        if self.fact_satisfies(pred, atom, pol):
                            out.append((B.id, s, lab, tag))
                            break
        # `return <expr>;` is a branch in disguise: the caller sees true only if <expr> was true.  A return whose
        # value implies the fact is recorded as a pseudo gate ('ret', node, ...) honoured by only_through().
        for r in self.returns():
            v = self.ret_value(r)
            if v is None or self.const_value(v) is not None:
                continue
            try:
                facts = self.cond_facts(v, True)
            except Exception:
                facts = []
            if any(self.fact_satisfies(pred, atom, pol) for (atom, pol) in facts):
                out.append(('ret', r, None, None, None))
        return out

    def only_through(self, target_node, gates):
        """True iff every path entry -> target passes one of the gate edges"""
        p = self.point_of(target_node)
        if p is None:
            raise AnalysisBroken('node %d of %s has no CFG position' % (target_node, self.id))
        preds = getattr(gates, 'preds', None)
        gates = list(gates)
        if any(len(g) == 5 and g[0] == 'ret' and g[1] == target_node for g in gates):
            return True
        reach = self.reachable_blocks(cut_edges=gates)
        if p[0] in reach and preds:
            # second chance: follow re-assigned boolean flags along each path (which definition reaches a test of the flag
            # and what the test says about it) - `bool ok = A; if(ok && x) ok = B; if(!ok) return; <target>`
            reach = self.reachable_blocks_flags(gates, preds)
        return p[0] not in reach

    def _tracked_flags(self):
        if not hasattr(self, '_tflags'):
            self._tflags = {}
            self.defs_of_var('')
            for ref, ds in self._defs.items():
                if not ref.startswith('v:') or len(ds) < 2 or any(v is None for (_, v) in ds):
                    continue
                decl = [d for (d, _) in ds if self.nodes[d]['k'] == 'DeclStmt']
                if len(decl) != 1:
                    continue
                t = None
                for d in self.nodes[decl[0]]['decls']:
                    if d['ref'] == ref:
                        t = (self.types[d['t']] or '').replace('const ', '').strip()
                if t != 'bool':
                    continue
                self._tflags[ref] = dict((d, v) for (d, v) in ds)
        return self._tflags

    def _flag_test(self, cond):
        """(flag ref, negated) if the condition is a tracked flag, possibly under `!`"""
        i, neg = self.strip(cond), False
        while self.nodes[i]['k'] == 'UnaryOperator' and self.nodes[i].get('op') == '!':
            i, neg = self.strip(self.nodes[i]['ch'][0]), not neg
        n = self.nodes[i]
        if n['k'] == 'DeclRefExpr' and n.get('ref') in self._tracked_flags():
            return n['ref'], neg
        return None

    def reachable_blocks_flags(self, gates, preds, start=None, cut_blocks=()):
        """like reachable_blocks(cut_edges=gates), with the state extended by, for every re-assigned bool local, the
        definition that reaches and the value a test has established.  An edge that tests such a flag is infeasible when it
        contradicts the known value, and is a gate when the reaching definition's expression, taken with the tested value,
        implies a fact one of `preds` accepts."""
        flags = self._tracked_flags()
        cut2, cut3, cut4 = set(), set(), set()
        for e in gates:
            if len(e) == 2:
                cut2.add(tuple(e))
            elif len(e) == 3:
                cut3.add(tuple(e))
            elif len(e) == 4:
                cut4.add(tuple(e))
        defat = {}
        for ref, ds in flags.items():
            for d in ds:
                defat[d] = ref
        def through(b, fl):
            B = self.blocks[b]
            fl = dict(fl)
            for e in B.elems:
                j = e.get('n')
                if j in defat:
                    v = flags[defat[j]][j]
                    cv = self.const_value(v)
                    fl[defat[j]] = (j, None if cv is None else bool(cv))
            return fl
        # equalities between unmodified locals / parameters / constants remembered along the path: `for(..; e != end; ..)` left
        # through its condition, then `if(e == end)`: the false edge of the second test is infeasible
        if not hasattr(self, '_wrblk'):
            self._wrblk = collections.defaultdict(set)
            self.defs_of_var('')
            for ref, ds in self._defs.items():
                for (d, _) in ds:
                    pd = self.point_of(d)
                    if pd is not None:
                        self._wrblk[pd[0]].add(ref)

        def eqkey(atom):
            n_ = self.nodes[atom]
            if n_['k'] != 'BinaryOperator' or n_.get('op') not in ('==', '!=') or len(n_['ch']) != 2:
                return None
            ks = []
            for c_ in n_['ch']:
                m_ = self.nodes[self.strip(c_)]
                if m_['k'] == 'DeclRefExpr' and (m_.get('ref') or '').startswith(('v:', 'p:')):
                    ks.append(m_['ref'])
                elif self.const_value(c_) is not None:
                    ks.append('#%s' % self.const_value(c_))
                else:
                    return None
            if all(k_.startswith('#') for k_ in ks):
                return None
            return (tuple(sorted(ks)), n_['op'] == '==')
        if start is None:
            start = self.entry
        seen, seenb = set(), set()
        stack = [(start, None, frozenset(), frozenset())]
        budget = 40000
        while stack and budget > 0:
            budget -= 1
            st = stack.pop()
            if st in seen:
                continue
            seen.add(st)
            b, tag, fl0, mem0 = st
            seenb.add(b)
            fl = through(b, dict(fl0))
            wr = self._wrblk.get(b, ())
            mem = dict((k_, v_) for (k_, v_) in mem0 if not any(r_ in wr for r_ in k_))
            lc = self.leaf_cond(self.blocks[b])
            ft = self._flag_test(lc[0]) if (lc is not None and not lc[1]) else None
            for (s2, lab, stag) in self.state_succ(b, tag):
                if (b, s2) in cut2 or (b, s2, lab) in cut3 or (b, s2, lab, tag) in cut4:
                    continue
                mem2 = mem
                if lc is not None and not lc[1] and lab in (True, False):
                    bad = False
                    try:
                        efacts = self.edge_facts(b, lab, tag)
                    except Exception:
                        efacts = []
                    for (atom, pol) in efacts:
                        ek = eqkey(atom)
                        if ek is None:
                            continue
                        val = (pol == ek[1])
                        if ek[0] in mem2 and mem2[ek[0]] != val:
                            bad = True
                            break
                        if ek[0] not in mem2:
                            mem2 = dict(mem2)
                            mem2[ek[0]] = val
                    if bad:
                        continue
                fl2 = fl
                if ft is not None and lab in (True, False) and ft[0] in fl:
                    ref, neg = ft
                    val = (lab != neg)
                    d, known = fl[ref]
                    if known is not None and known != val:
                        continue                       # contradicts what an earlier test / a constant assignment established
                    expr = flags[ref][d]
                    gate = False
                    if self.const_value(expr) is None:
                        try:
                            facts = self.cond_facts(expr, val)
                        except Exception:
                            facts = []
                        gate = any(self.fact_satisfies(pr, atom, pol) for pr in preds for (atom, pol) in facts)
                    if gate:
                        continue
                    fl2 = dict(fl)
                    fl2[ref] = (d, val)
                if s2 in cut_blocks:
                    continue
                nxt = (s2, stag, frozenset(fl2.items()), frozenset(mem2.items()))
                if nxt not in seen:
                    stack.append(nxt)
        if budget <= 0:
            return self.reachable_blocks(start, cut_edges=gates, cut_blocks=cut_blocks)
        return seenb

    def abnormal_blocks(self):
        """blocks that end by throwing / calling a noreturn function (their edge to EXIT is not a normal return)"""
        out = set()
        for B in self.blocks.values():
            for e in B.elems:
                if 'n' in e:
                    n = self.nodes[e['n']]
                    if n['k'] == 'CXXThrowExpr' or (n['k'] in CALL_KINDS and n.get('noret')):
                        out.add(B.id)
        return out

    def returns(self):
        return [i for i in self.walk() if self.nodes[i]['k'] == 'ReturnStmt']

    def ret_value(self, r):
        n = self.nodes[r]
        return n['ch'][0] if n['ch'] else None


def _mutable_ref(pt):
    """`T &` through which the callee can modify the argument: `const char *&` is one (reference to a pointer to const), `const T &` is not"""
    pt = (pt or '').strip()
    if not pt.endswith('&') or pt.endswith('&&'):
        return False
    t = pt[:-1].strip()
    if t.endswith('*'):
        return True
    if t.endswith('const'):
        return False
    return not t.startswith('const ')


class GateList(list):
    """gate edges together with the predicates that selected them (kept through concatenation), so that only_through can
    re-evaluate flag tests path-sensitively"""
    preds = None

    def __add__(self, other):
        r = GateList(list.__add__(self, list(other)))
        r.preds = (self.preds or []) + (getattr(other, 'preds', None) or [])
        return r

    def __radd__(self, other):
        r = GateList(list(other) + list(self))
        r.preds = (getattr(other, 'preds', None) or []) + (self.preds or [])
        return r


class Program(object):
    def __init__(self, units):
        self.units = units
        self.fns = {}        # id -> Fn   (first definition wins; headers repeat across units)
        self.records = {}    # qualified name -> dict
        self.enums = {}
        self.globals = {}
        for u in units:
            for r in u['records']:
                self.records.setdefault(r['name'], r)
            for e in u['enums']:
                self.enums.setdefault(e['name'], e)
            for g in u['globals']:
                g['types'] = u['types']
                self.globals.setdefault(g['name'], g)
            for f in u['functions']:
                if f['id'] not in self.fns:
                    self.fns[f['id']] = Fn(f, u)
                    self.fns[f['id']].P = self
        self._const_ret = {}
        self.flattened = {}
        if os.environ.get('VERIF_INLINE'):
            from . import inline
            done = {}
            for f in list(self.fns.values()):
                names = inline.flatten(f, (), done)
                if names:
                    self.flattened[f.id] = names
        self.by_name = collections.defaultdict(list)
        self.by_bname = collections.defaultdict(list)
        for f in self.fns.values():
            self.by_name[f.name].append(f)
            self.by_bname[f.bname].append(f)
        self.brecords = collections.defaultdict(list)
        for r in self.records.values():
            self.brecords[strip_targs(r['name'])].append(r)

    def fn(self, bname, must=True, all_=False):
        """functions whose template-stripped qualified name is bname"""
        l = self.by_bname.get(bname, [])
        if not l and must:
            raise AnalysisBroken('anchor function %s not found in the analysed units' % bname)
        if all_:
            return l
        return l[0] if l else None

    def fn_in_unit(self, fid, unit):
        """the definition of function `fid` as seen by translation unit `unit` (header functions are repeated per unit and their
        type tables are per unit: node-level cooperation between two functions needs both from the same unit)"""
        if not hasattr(self, '_fiu'):
            self._fiu = {}
        key = (fid, id(unit))
        if key not in self._fiu:
            self._fiu[key] = None
            for d in unit['functions']:
                if d['id'] == fid:
                    g = self.fns[fid] if (fid in self.fns and self.fns[fid].unit is unit) else Fn(d, unit)
                    g.P = self
                    self._fiu[key] = g
                    break
        return self._fiu[key]

    def const_return(self, fid):
        """the constant a (non-virtual, defined) function returns on every path, e.g. a `...; return false;` helper"""
        if fid in self._const_ret:
            return self._const_ret[fid]
        self._const_ret[fid] = None     # recursion guard
        g = self.fns.get(fid)
        res = None
        if g is not None and g.entry is not None:
            vals = set()
            for r in g.returns():
                v = g.ret_value(r)
                vals.add(g.const_value(v) if v is not None else None)
            if len(vals) == 1 and None not in vals:
                res = vals.pop()
        self._const_ret[fid] = res
        return res

    def fns_in_file(self, path):
        return [f for f in self.fns.values() if f.file == path]

    def fns_of_record(self, brecord):
        return [f for f in self.fns.values() if f.brecord == brecord]

    def record(self, bname, must=True):
        l = self.brecords.get(bname, [])
        if not l and must:
            raise AnalysisBroken('anchor class %s not found' % bname)
        return l[0] if l else None

    def derived_from(self, base_bname):
        """template-stripped names of all classes transitively derived from base"""
        out = set()
        changed = True
        while changed:
            changed = False
            for r in self.records.values():
                bn = strip_targs(r['name'])
                if bn in out:
                    continue
                for b in r['bases']:
                    sb = strip_targs(b)
                    if sb == base_bname or sb in out:
                        out.add(bn)
                        changed = True
                        break
        return out

    def overriders_of(self, method_bname):
        """function definitions that override (transitively) the virtual method with the
        given template-stripped qualified name, found through the class hierarchy"""
        out = []
        base_rec, short = method_bname.rsplit('::', 1)
        der = self.derived_from(base_rec)
        for f in self.fns.values():
            if f.short == short and f.brecord in der and f.d.get('virtual'):
                out.append(f)
        return out

    def fields_of(self, brecord, inherited=True):
        r = self.record(brecord)
        out = list(r['fields'])
        if inherited:
            for b in r['bases']:
                if strip_targs(b) in self.brecords:
                    out += self.fields_of(strip_targs(b))
        return out
