"""LOCKSET: flow-sensitive must-hold lock sets over the clang CFG, RAII guards and explicit
lock()/unlock(), per-function requirements propagated through the call graph."""
import collections
from .model import strip_targs, CALL_KINDS
from .build import AnalysisBroken
from . import q

# guard class (template-stripped) -> mode
GUARDS = {
    'std::unique_lock': 'X',      # booster::unique_lock is a using-declaration of std::unique_lock
    'std::lock_guard': 'X',
    'booster::shared_lock': 'S',
    'cppcms::impl::mutex::guard': 'X',
    'cppcms::impl::shared_mutex::shared_guard': 'S',
    'cppcms::impl::shared_mutex::unique_guard': 'X',
}
# explicit member calls on a mutex object
LOCK_CALLS = {'lock': 'X', 'wrlock': 'X', 'unique_lock': 'X', 'rdlock': 'S', 'shared_lock': 'S'}
UNLOCK_CALLS = {'unlock'}

ASSIGN = set(q.ASSIGN_OPS)
NONMUT = {'find', 'begin', 'end', 'rbegin', 'rend', 'cbegin', 'cend', 'empty', 'size', 'count', 'front', 'back', 'top',
          'at', 'operator->', 'operator*', 'c_str', 'data', 'get', 'length', 'lower_bound', 'upper_bound', 'equal_range',
          'capacity', 'max_size', 'substr', 'compare', 'operator bool', 'str'}


def bfield(ref):
    return strip_targs(ref) if ref else ref


class LockAnalysis(object):
    def __init__(self, fn, guards=GUARDS, lock_of=None):
        """lock_of(fn, expr node) -> lock name or None; default: last field of the access path"""
        self.fn = fn
        self.guards = guards
        self.lock_of = lock_of or self._default_lock_of
        self.guard_vars = {}     # var ref -> (lock, mode)
        self._scan_guards()
        self._solve()

    def _default_lock_of(self, fn, e):
        ap = fn.access_path(e)
        if not ap:
            return None
        last = ap[-1]
        if last.startswith('f:'):
            return bfield(last)
        if last.startswith(('v:', 'p:', 'g:')):
            return last.split('@')[0]
        return None

    def _scan_guards(self):
        fn = self.fn
        for i in fn.all_nodes():
            n = fn.N(i)
            if n['k'] != 'DeclStmt':
                continue
            for d in n['decls']:
                t = strip_targs(fn.types[d['t']])
                if t in self.guards and d.get('init') is not None:
                    c = fn.strip(d['init'])
                    cn = fn.N(c)
                    if cn['k'] in ('CXXConstructExpr', 'CXXTemporaryObjectExpr') and cn['ch']:
                        lk = self.lock_of(fn, cn['ch'][0])
                        if lk is None:
                            raise AnalysisBroken('cannot name the lock taken by guard %s in %s (%s)' % (d['name'], fn.id, fn.loc(i)))
                        self.guard_vars[d['ref']] = (lk, self.guards[t], i)

    # transfer of one CFG element
    def _apply(self, st, e):
        fn = self.fn
        if 'dtor' in e:
            g = self.guard_vars.get(e['dtor'])
            if g:
                st = st - {(g[0], g[1])}
            return st
        if 'n' not in e:
            return st
        i = e['n']
        n = fn.N(i)
        k = n['k']
        if k == 'DeclStmt':
            for d in n['decls']:
                g = self.guard_vars.get(d['ref'])
                if g:
                    st = st | {(g[0], g[1])}
            return st
        if k == 'CXXMemberCallExpr':
            sh = q.short_of(n.get('cn'))
            if sh in LOCK_CALLS or sh in UNLOCK_CALLS:
                o = fn.obj(i)
                if o is None:
                    return st
                r = fn.ref_of(o)
                if r in self.guard_vars:       # guard.unlock() / guard.lock()
                    g = self.guard_vars[r]
                    if sh in UNLOCK_CALLS:
                        return st - {(g[0], g[1])}
                    return st | {(g[0], g[1])}
                lk = self.lock_of(fn, o)
                if lk is None:
                    return st
                if sh in UNLOCK_CALLS:
                    return frozenset(x for x in st if x[0] != lk)
                return st | {(lk, LOCK_CALLS[sh])}
        if k == 'CallExpr':
            cn = n.get('cn')
            if cn in ('pthread_mutex_lock', 'pthread_rwlock_wrlock', 'pthread_rwlock_rdlock', 'pthread_mutex_unlock', 'pthread_rwlock_unlock'):
                a = fn.args(i)
                lk = self.lock_of(fn, a[0]) if a else None
                if lk:
                    if cn.endswith('unlock'):
                        return frozenset(x for x in st if x[0] != lk)
                    return st | {(lk, 'S' if cn.endswith('rdlock') else 'X')}
        return st

    def _solve(self):
        fn = self.fn
        TOP = None
        self.IN = {b: TOP for b in fn.blocks}
        self.OUT = {b: TOP for b in fn.blocks}
        if fn.entry is None:
            return
        self.IN[fn.entry] = frozenset()
        work = collections.deque([fn.entry])
        inq = set(work)
        iters = 0
        while work:
            iters += 1
            if iters > 20000:
                raise AnalysisBroken('lockset fixpoint does not converge in %s' % fn.id)
            b = work.popleft()
            inq.discard(b)
            st = self.IN[b]
            if st is TOP:
                continue
            for e in fn.blocks[b].elems:
                st = self._apply(st, e)
            changed = self.OUT[b] != st
            self.OUT[b] = st
            succs = [s for (s, _) in fn.succ_edges(b)]
            for s in succs:
                new = st if self.IN[s] is TOP else (self.IN[s] & st)
                if new != self.IN[s]:
                    self.IN[s] = new
                    if s not in inq:
                        work.append(s)
                        inq.add(s)
            # exceptional flow: a try-dispatch block gets the intersection of the states in force
            # before every statement element that lies lexically inside its try body
            for t in fn.try_blocks:
                body = fn.N(fn.blocks[t].term)['body']
                states = []
                for x in fn.blocks:
                    s2 = self.IN[x]
                    if s2 is TOP:
                        continue
                    for e in fn.blocks[x].elems:
                        if 'n' in e and fn.contains(body, e['n']):
                            states.append(s2)
                        s2 = self._apply(s2, e)
                if not states:
                    continue
                new = states[0]
                for s2 in states[1:]:
                    new = new & s2
                inner = set()
                for gv, (lk, mode, decl) in self.guard_vars.items():
                    if fn.contains(body, decl):
                        inner.add((lk, mode))
                new = frozenset(new - inner)
                if new != self.IN[t]:
                    self.IN[t] = new
                    if t not in inq:
                        work.append(t)
                        inq.add(t)

    def at(self, node):
        """lock set held just before node is evaluated; None if unreachable"""
        fn = self.fn
        p = fn.point_of(node)
        if p is None:
            raise AnalysisBroken('no CFG point for node %d in %s' % (node, fn.id))
        st = self.IN[p[0]]
        if st is None:
            return None
        for e in fn.blocks[p[0]].elems[:p[1]]:
            st = self._apply(st, e)
        return st


def classify_access(fn, m):
    """'w' or 'r' for the member-access node m (a MemberExpr naming a field)"""
    child = m
    for a in fn.ancestors(m):
        n = fn.N(a)
        k = n['k']
        if k in ('ParenExpr', 'ExprWithCleanups', 'MaterializeTemporaryExpr', 'CXXBindTemporaryExpr'):
            child = a
            continue
        if k == 'ImplicitCastExpr':
            if n.get('cast') == 'LValueToRValue':
                return 'r'
            child = a
            continue
        if k in ('BinaryOperator', 'CompoundAssignOperator'):
            if n.get('op') in ASSIGN and n['ch'][0] == child:
                return 'w'
            return 'r'
        if k == 'UnaryOperator':
            if n.get('op') in ('++', '--', '&'):
                return 'w'
            if n.get('op') == '*':
                child = a
                continue
            return 'r'
        if k == 'MemberExpr':
            ref = n.get('ref', '')
            if ref.startswith('fn:'):
                # member call on the object
                call = fn.parent.get(a)
                sh = q.short_of(strip_targs(ref[3:].split('(')[0]))
                if ref.endswith(' const') or sh in NONMUT:
                    return 'r'
                return 'w'
            # sub-object: classification continues on the sub-object expression
            if n.get('arrow'):
                return 'r'      # pointer member dereferenced: the pointer itself is only read
            child = a
            continue
        if k == 'ArraySubscriptExpr':
            child = a
            continue
        if k == 'CXXOperatorCallExpr':
            op = n.get('op')
            if len(n['ch']) > 1 and n['ch'][1] == child:
                if op in ASSIGN or op in ('++', '--'):
                    return 'w'
                if op in ('*', '->', '==', '!=', '<', '>', '<=', '>=', '()'):
                    if op in ('*', '->'):
                        return 'r'
                    return 'r'
                if op == '[]':
                    ov = n.get('ov')
                    return 'w'
                return 'r'
            return _arg_mode(fn, a, child)
        if k in CALL_KINDS:
            return _arg_mode(fn, a, child)
        if k in ('CStyleCastExpr', 'CXXStaticCastExpr', 'CXXReinterpretCastExpr', 'CXXConstCastExpr', 'CXXFunctionalCastExpr'):
            child = a
            continue
        return 'r'
    return 'r'


def _arg_mode(fn, call, child):
    n = fn.N(call)
    ov = n.get('ov') or []
    args = fn.args(call)
    if n['k'] == 'CXXOperatorCallExpr' and n.get('rec'):
        args = args[1:]
    for a, pt in zip(args, ov):
        if a == child:
            pt = pt.strip()
            if (pt.endswith('&') or pt.endswith('*')) and not pt.startswith('const '):
                return 'w'
            return 'r'
    return 'r'


def satisfied(req, held):
    """req: list of alternatives, each a set of (lock, mode) all of which must be held ('S' is satisfied by 'X')"""
    for alt in req:
        ok = True
        for (lk, mode) in alt:
            if (lk, mode) in held or (mode == 'S' and (lk, 'X') in held):
                continue
            ok = False
            break
        if ok:
            return True
    return False


class ClassLockCheck(object):
    """Checks a guarded-by table over all methods of a set of classes.
    table: {bfield: {'r': [alt,...], 'w': [alt,...]}}  alt = frozenset of (lock, mode).
    Result: per entry function, the list of unprotected accesses (direct or via internal callees)."""

    def __init__(self, fns, table, lock_of=None, guards=GUARDS):
        self.fns = list(fns)
        self.table = table
        self.byid = {f.id: f for f in self.fns}
        self.la = {f.id: LockAnalysis(f, guards, lock_of) for f in self.fns}
        self.accesses = {}    # fid -> [(node, bfield, 'r'/'w', held)]
        self.calls = {}       # fid -> [(node, callee fid, held)]
        for f in self.fns:
            acc, cl = [], []
            la = self.la[f.id]
            for i in f.all_nodes():
                n = f.N(i)
                if n['k'] == 'MemberExpr' and n.get('ref', '').startswith('f:'):
                    bf = bfield(n['ref'])
                    if bf in table:
                        if f.point_of(i) is None:
                            continue
                        held = la.at(i)
                        if held is None:
                            continue
                        acc.append((i, bf, classify_access(f, i), held))
                elif n['k'] in CALL_KINDS and n.get('callee') in self.byid:
                    if f.point_of(i) is None:
                        continue
                    held = la.at(i)
                    if held is None:
                        continue
                    cl.append((i, n['callee'], held))
            self.accesses[f.id] = acc
            self.calls[f.id] = cl
        self._propagate()

    def _propagate(self):
        """missing[fid] = list of (chain, bfield, mode, alt-needed) that the caller must provide"""
        self.missing = {f.id: [] for f in self.fns}
        for f in self.fns:
            for (i, bf, mode, held) in self.accesses[f.id]:
                req = self.table[bf][mode]
                if not satisfied(req, held):
                    self.missing[f.id].append((((f, i),), bf, mode, req, held))
        changed = True
        rounds = 0
        while changed and rounds < 20:
            changed = False
            rounds += 1
            for f in self.fns:
                for (i, callee, held) in self.calls[f.id]:
                    for (chain, bf, mode, req, inner) in list(self.missing[callee]):
                        if satisfied(req, held | inner):       # locks taken inside the helper count together with the caller's
                            continue
                        key = (callee, chain[-1][1], bf, mode, i)
                        new = (((f, i),) + chain, bf, mode, req, held | inner)
                        if not any(x[0][0] == (f, i) and x[0][-1] == chain[-1] and x[1] == bf and x[2] == mode for x in self.missing[f.id]):
                            if len(new[0]) <= 6:
                                self.missing[f.id].append(new)
                                changed = True


SCALAR_TYPES = {'int', 'unsigned int', 'long', 'unsigned long', 'bool', 'char', 'unsigned char', 'short', 'unsigned short', 'long long',
                'unsigned long long', 'size_t', 'time_t', 'double', 'float', 'signed char'}


class EscapeAnalysis(object):
    """Iterators / references obtained from guarded containers must not be used after the lock under which
    they were obtained has been released (check-then-act across a lock gap).
    Must-analysis: state = set of locals that are currently *valid*; a release of any lock kills every local
    obtained under it; a use of a tainted local that is not valid is reported."""

    def __init__(self, fn, la, table):
        self.fn, self.la = fn, la
        self.guarded = set(table)
        # primary lock(s) of a field: the locks named in every alternative of every mode
        self.primary = {}
        for bf, modes in table.items():
            alts = [set(l for (l, m) in alt) for alts_ in modes.values() for alt in alts_]
            self.primary[bf] = set.intersection(*alts) if alts else set()
        self.var_locks = collections.defaultdict(set)
        self.tainted = self._taint()
        self.bad = []
        if self.tainted:
            self._solve()

    def _is_guarded_expr(self, v, tainted):
        fn = self.fn
        refs = fn.subtree_refs(v)
        return any(bfield(r) in self.guarded for r in refs if r.startswith('f:')) or bool(refs & tainted)

    def _taint(self):
        fn = self.fn
        fn.defs_of_var('')
        tainted = set()
        types = {}
        for i in fn.all_nodes():
            n = fn.N(i)
            if n['k'] == 'DeclStmt':
                for d in n['decls']:
                    types[d['ref']] = (fn.types[d['t']], d.get('isref'))
        changed = True
        while changed:
            changed = False
            for ref, defs in fn._defs.items():
                if ref in tainted or not ref.startswith('v:') or ref not in types:
                    continue
                t, isref = types[ref]
                base = t.replace('const ', '').strip()
                if base in SCALAR_TYPES and not isref:
                    continue
                for (_, v) in defs:
                    if v is not None and self._is_guarded_expr(v, tainted):
                        tainted.add(ref)
                        changed = True
                        break
        # which locks protect what each tainted local points into
        for _ in range(4):
            for ref in tainted:
                for (_, v) in fn._defs.get(ref, []):
                    if v is None:
                        continue
                    for r in fn.subtree_refs(v):
                        if r.startswith('f:') and bfield(r) in self.guarded:
                            self.var_locks[ref] |= self.primary[bfield(r)]
                        elif r in tainted:
                            self.var_locks[ref] |= self.var_locks[r]
        return tainted

    def _solve(self):
        fn, la = self.fn, self.la
        defnodes = collections.defaultdict(list)    # node -> [ref] defined there (with guarded value)
        for ref in self.tainted:
            for (node, v) in fn.defs_of_var(ref):
                if v is not None:
                    defnodes[node].append((ref, v))
        IN = {fn.entry: frozenset()}
        work = collections.deque([fn.entry])
        reported = set()
        it = 0
        while work:
            it += 1
            if it > 20000:
                raise AnalysisBroken('escape analysis does not converge in %s' % fn.id)
            b = work.popleft()
            valid = IN[b]
            locks = la.IN.get(b)
            if locks is None:
                continue
            for e in fn.blocks[b].elems:
                n = e.get('n')
                if n is not None:
                    nd = fn.N(n)
                    if nd['k'] == 'DeclRefExpr' and nd.get('ref') in self.tainted:
                        ref = nd['ref']
                        # a use unless this node is the target of a (re)definition
                        par = fn.parent.get(n)
                        is_def_target = False
                        if par is not None:
                            pn = fn.N(par)
                            if pn['k'] in ('BinaryOperator',) and pn.get('op') == '=' and pn['ch'][0] == n:
                                is_def_target = True
                            if pn['k'] == 'CXXOperatorCallExpr' and pn.get('op') == '=' and len(pn['ch']) > 1 and pn['ch'][1] == n:
                                is_def_target = True
                        if not is_def_target and ref not in valid and (ref, n) not in reported:
                            reported.add((ref, n))
                            self.bad.append((ref, n, sorted(locks)))
                    for (ref, v) in defnodes.get(n, []):
                        if locks:
                            valid = valid | {ref}
                        else:
                            valid = valid - {ref}
                new_locks = la._apply(locks, e)
                gone = set(x[0] for x in locks if x not in new_locks)
                if gone:
                    # everything obtained under a released protecting lock is stale
                    valid = frozenset(v for v in valid if not (self.var_locks[v] & gone))
                locks = new_locks
            for (s, lab) in fn.succ_edges(b):
                old = IN.get(s)
                new = valid if old is None else (old & valid)
                if new != old:
                    IN[s] = new
                    work.append(s)
