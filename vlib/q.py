"""Reusable queries over Fn objects (the vocabulary rules are written in)."""
from .model import CALL_KINDS, strip_targs
from .build import AnalysisBroken

ASSIGN_OPS = ('=', '+=', '-=', '*=', '/=', '%=', '&=', '|=', '^=', '<<=', '>>=')

# member functions that overload resolution may pick on a non-const object without mutating it
NONMUTATING = {'find', 'begin', 'end', 'rbegin', 'rend', 'cbegin', 'cend', 'empty', 'size', 'count', 'front', 'back', 'top',
               'at', 'operator->', 'operator*', 'c_str', 'data', 'get', 'length', 'operator[]', 'lower_bound', 'upper_bound',
               'equal_range', 'capacity', 'max_size', 'substr', 'compare', 'operator bool', 'str', 'good', 'fail', 'eof'}


def short_of(cn):
    if cn is None:
        return None
    s = strip_targs(cn)
    return s.rsplit('::', 1)[-1]


def calls_to(fn, bname=None, short=None, root=None, pred=None):
    out = []
    for i in fn.calls(root):
        cn = fn.bcallee(i)
        if cn is None:
            continue
        if bname is not None and cn != bname:
            continue
        if short is not None and cn.rsplit('::', 1)[-1] != short:
            continue
        if pred is not None and not pred(i):
            continue
        out.append(i)
    return out


def call_gate(fn, match, polarity):
    """gate edges: branch edges implying that a call matched by `match(node id)` evaluated to `polarity`"""
    def pred(atom, pol):
        n = fn.N(atom)
        return pol == polarity and n['k'] in CALL_KINDS and match(atom)
    return fn.gate_edges(pred)


def writes_to(fn, ref, root=None):
    """nodes that (may) write the variable / parameter / field named by `ref`:
    assignment, ++/--, non-const member call on it, passing it by non-const reference or address"""
    out = []
    it = fn.walk(root) if root is not None else fn.all_nodes()
    for i in it:
        n = fn.N(i)
        k = n['k']
        if k in ('BinaryOperator', 'CompoundAssignOperator') and n.get('op') in ASSIGN_OPS:
            if _roots_at(fn, n['ch'][0], ref):
                out.append(i)
        elif k == 'UnaryOperator' and n.get('op') in ('++', '--'):
            if _roots_at(fn, n['ch'][0], ref):
                out.append(i)
        elif k == 'CXXOperatorCallExpr':
            op = n.get('op')
            if op in ASSIGN_OPS or op in ('++', '--', '<<', '>>'):
                if len(n['ch']) > 1 and _roots_at(fn, n['ch'][1], ref) and (op not in ('<<', '>>') or True):
                    if op in ('<<', '>>'):
                        # stream insertion mutates the stream object only
                        if fn.ref_of(n['ch'][1]) == ref:
                            out.append(i)
                    else:
                        out.append(i)
            else:
                _outparam(fn, i, ref, out)
        elif k == 'CXXMemberCallExpr':
            o = fn.obj(i)
            m = fn.N(fn.strip(n['ch'][0]))
            if o is not None and _roots_at(fn, o, ref):
                mref = m.get('ref', '')
                is_const = mref.endswith(' const')
                sh = short_of(n.get('cn'))
                if not is_const and sh not in NONMUTATING:
                    out.append(i)
            _outparam(fn, i, ref, out)
        elif k in CALL_KINDS:
            _outparam(fn, i, ref, out)
    return out


def _roots_at(fn, i, ref):
    """does the lvalue expression i denote (a part of) the object `ref`"""
    i = fn.strip(i)
    n = fn.N(i)
    k = n['k']
    if k in ('DeclRefExpr',):
        return n.get('ref') == ref
    if k == 'MemberExpr':
        if n.get('ref') == ref:
            return True
        if n['ch'] and not n.get('arrow'):
            return _roots_at(fn, n['ch'][0], ref)
        return False
    if k == 'ArraySubscriptExpr':
        return _roots_at(fn, n['ch'][0], ref)
    if k == 'CXXOperatorCallExpr' and n.get('op') == '[]' and len(n['ch']) > 1:
        return _roots_at(fn, n['ch'][1], ref)
    if k == 'UnaryOperator' and n.get('op') == '*':
        return _roots_at(fn, n['ch'][0], ref)
    if k in ('CStyleCastExpr', 'CXXStaticCastExpr', 'CXXReinterpretCastExpr', 'CXXConstCastExpr'):
        return _roots_at(fn, n['ch'][0], ref)
    return False


def _outparam(fn, i, ref, out):
    n = fn.N(i)
    ov = n.get('ov') or []
    args = fn.args(i)
    if n['k'] == 'CXXOperatorCallExpr' and n.get('rec'):
        args = args[1:]
    for a, pt in zip(args, ov):
        pt = pt.strip()
        if (pt.endswith('&') and not pt.startswith('const ')) or (pt.endswith('*') and not pt.startswith('const ')):
            s = fn.strip(a)
            sn = fn.N(s)
            if sn['k'] == 'UnaryOperator' and sn.get('op') == '&':
                s = fn.strip(sn['ch'][0])
            if _roots_at(fn, s, ref):
                out.append(i)
                return


def nonfalse_returns(fn):
    out = []
    for r in fn.returns():
        v = fn.ret_value(r)
        if v is None:
            continue
        if fn.const_value(v) == 0:
            continue
        out.append(r)
    return out


def false_returns(fn):
    return [r for r in fn.returns() if fn.ret_value(r) is not None and fn.const_value(fn.ret_value(r)) == 0]


def param_ref(fn, name):
    for p in fn.params:
        if p['name'] == name:
            return p['ref']
    raise AnalysisBroken('%s has no parameter named %s' % (fn.id, name))


def param_by_index(fn, idx):
    if idx >= len(fn.params):
        raise AnalysisBroken('%s has no parameter #%d' % (fn.id, idx))
    return fn.params[idx]['ref']


def fkey(fn):
    """stable function key for instance identities (template-stripped name)"""
    return fn.bname


def before(fn, a, b):
    """does every path entry->b pass a first?  (a dominates b), at element granularity"""
    pa, pb = fn.last_point_of(a), fn.point_of(b)
    if pa is None or pb is None:
        raise AnalysisBroken('no CFG position in %s' % fn.id)
    if pa[0] == pb[0]:
        return pa[1] < pb[1]
    reach = fn.reachable_blocks(cut_blocks=[pa[0]])
    return pb[0] not in reach


def reaches(fn, a, b):
    """is there a CFG path from after node a to node b"""
    pa, pb = fn.last_point_of(a), fn.point_of(b)
    if pa[0] == pb[0] and pa[1] < pb[1]:
        return True
    seen = set()
    stack = [s for (s, _) in fn.succ_edges(pa[0])]
    while stack:
        x = stack.pop()
        if x in seen:
            continue
        seen.add(x)
        stack.extend(s for (s, _) in fn.succ_edges(x))
    return pb[0] in seen


def whole_loop(f, L, cont_match):
    """loop L visits every element of a container: range-for, or an iterator that starts at begin() of a container accepted by
    cont_match(f, call) and runs while it differs from (or is below) end() of it, with no early leave"""
    n_ = f.N(L)
    if n_['k'] == 'CXXForRangeStmt':
        return not [j for j in f.walk(n_['body']) if f.N(j)['k'] in ('BreakStmt', 'ReturnStmt', 'GotoStmt')]
    if n_.get('cond', -1) in (None, -1):
        return False
    cn_ = f.N(f.strip(n_['cond']))
    op_ok = (cn_['k'] in ('CXXOperatorCallExpr', 'BinaryOperator') and cn_.get('op') in ('!=', '<')) or \
            (cn_['k'] == 'UnaryOperator' and cn_.get('op') == '!' and f.N(f.strip(cn_['ch'][0])).get('op') == '==')
    iv = [r for r in f.subtree_refs(n_['cond']) if r.startswith('v:')]
    vals = [v_ for r in iv for (d_, v_) in f.defs_of_var(r) if v_ is not None]
    ends = [j for j in f.calls(n_['cond']) if short_of(f.bcallee(j) or '') == 'end' and cont_match(f, j)] + \
           [j for v_ in vals for j in f.calls(v_) if short_of(f.bcallee(j) or '') == 'end' and cont_match(f, j)]
    begins = [j for v_ in vals for j in f.calls(v_) if short_of(f.bcallee(j) or '') == 'begin' and cont_match(f, j)]
    esc = [j for j in f.walk(n_['body']) if f.N(j)['k'] in ('BreakStmt', 'ReturnStmt', 'GotoStmt', 'ContinueStmt')]
    return op_ok and bool(ends) and bool(begins) and not esc


def truth_gate(fn, is_expr, want):
    """edges on which the boolean expression recognised by is_expr(node) is known to be `want`: the expression itself as a
    condition (also under `!`, which cond_facts removes), or compared with a boolean / 0 / 1 literal"""
    def pred(atom, pol):
        n = fn.N(atom)
        if n['k'] == 'BinaryOperator' and n.get('op') in ('==', '!='):
            for x, c in ((n['ch'][0], n['ch'][1]), (n['ch'][1], n['ch'][0])):
                cv = fn.const_value(c)
                if cv in (0, 1) and is_expr(fn.strip(x)):
                    val = (pol == (n['op'] == '==')) == bool(cv)        # value the expression has on this edge
                    return val == want
            return False
        return is_expr(fn.strip(atom)) and pol == want
    return fn.gate_edges(pred)


def between(fn, a, x, b):
    """node x is evaluated on some path that leaves a and arrives at b for the first time (paths that pass b and come back,
    e.g. through a loop's back edge, do not count)"""
    pa, px, pb = fn.last_point_of(a), fn.point_of(x), fn.point_of(b)
    if pa is None or px is None or pb is None:
        return False
    if pa[0] == pb[0] and pa[1] < pb[1]:
        return px[0] == pa[0] and pa[1] < px[1] < pb[1]
    if px[0] == pa[0]:
        return px[1] > pa[1]
    if px[0] == pb[0]:
        return px[1] < pb[1]
    first = set(fn.reachable_blocks(start=pa[0], cut_blocks=[pb[0]]))
    return px[0] in first and reaches(fn, x, b)


# ---------------------------------------------------------------------------------------
def obj_field(fn, call):
    """template-stripped field at the end of the object expression's access path of a member call / member operator call"""
    n = fn.N(call)
    o = fn.obj(call)
    if o is None:
        return None
    ap = fn.access_path(o)
    if not ap:
        return None
    last = ap[-1]
    return strip_targs(last) if last.startswith('f:') else last


def field_calls(fn, field_suffix, method=None, root=None):
    """member calls `<...>.field.method(...)`; field matched by suffix of the template-stripped field ref"""
    out = []
    for i in fn.calls(root):
        n = fn.N(i)
        if n['k'] not in ('CXXMemberCallExpr', 'CXXOperatorCallExpr'):
            continue
        of = obj_field(fn, i)
        if of is None or not of.endswith(field_suffix):
            continue
        sh = short_of(n.get('cn')) if n['k'] == 'CXXMemberCallExpr' else 'operator' + n.get('op', '')
        if method is not None and sh != method and not (isinstance(method, (set, tuple, list)) and sh in method):
            continue
        out.append(i)
    return out


def mentions_field_call(fn, root, field_suffix, method):
    return any(True for _ in field_calls(fn, field_suffix, method, root))


def end_compare_gate(fn, field_suffix, want_equal_end):
    """gate edges on which `X == field.end()` is known to be `want_equal_end` (handles == and !=, operator calls and built-ins)"""
    def pred(atom, pol):
        n = fn.N(atom)
        op = n.get('op')
        if op not in ('==', '!=') or n['k'] not in ('CXXOperatorCallExpr', 'BinaryOperator'):
            return False
        if not mentions_field_call(fn, atom, field_suffix, 'end'):
            return False
        is_eq = pol if op == '==' else (not pol)
        return is_eq == want_equal_end
    return fn.gate_edges(pred)


def blocks_of(fn, nodes):
    out = set()
    for i in nodes:
        p = fn.point_of(i)
        if p is not None:
            out.add(p[0])
    return out


def always_after(fn, a, events, with_catch=False):
    """on every normal path from node a to function exit, one of `events` (nodes) is evaluated"""
    pa = fn.last_point_of(a)
    evb = {}
    for e in events:
        p = fn.point_of(e)
        if p is not None:
            evb.setdefault(p[0], []).append(p[1])
    if pa[0] in evb and any(ix > pa[1] for ix in evb[pa[0]]):
        return True
    cut = set(evb) | fn.abnormal_blocks()
    cut.discard(pa[0])
    reach = fn.reachable_blocks(start=pa[0], cut_blocks=cut, with_catch=with_catch)
    # loops: a may be re-entered; the start block itself is fine
    return fn.exit not in reach


def always_before_exit(fn, events, with_catch=False):
    """every normal path entry -> exit evaluates one of `events`"""
    evb = blocks_of(fn, events)
    reach = fn.reachable_blocks(cut_blocks=evb | fn.abnormal_blocks(), with_catch=with_catch)
    return fn.exit not in reach


def incdec_of_field(fn, field_suffix, ops=('++', '--')):
    out = []
    for i in fn.all_nodes():
        n = fn.N(i)
        if n['k'] == 'UnaryOperator' and n.get('op') in ops:
            r = fn.ref_of(n['ch'][0])
            if r and strip_targs(r).endswith(field_suffix):
                out.append(i)
        elif n['k'] == 'CompoundAssignOperator' and n.get('op') in ('+=', '-='):
            r = fn.ref_of(n['ch'][0])
            if r and strip_targs(r).endswith(field_suffix):
                if ('++' in ops and n['op'] == '+=') or ('--' in ops and n['op'] == '-='):
                    out.append(i)
    return out


def field_writes(fn, field_suffix):
    """assignments / ++ / -- / compound assignments whose target is the field"""
    out = []
    for i in fn.all_nodes():
        n = fn.N(i)
        if n['k'] in ('BinaryOperator', 'CompoundAssignOperator') and n.get('op') in ASSIGN_OPS:
            r = fn.ref_of(n['ch'][0])
            if r and strip_targs(r).endswith(field_suffix):
                out.append(i)
        elif n['k'] == 'UnaryOperator' and n.get('op') in ('++', '--'):
            r = fn.ref_of(n['ch'][0])
            if r and strip_targs(r).endswith(field_suffix):
                out.append(i)
        elif n['k'] == 'CXXOperatorCallExpr' and n.get('op') in ASSIGN_OPS + ('++', '--') and len(n['ch']) > 1:
            r = fn.ref_of(n['ch'][1])
            if r and strip_targs(r).endswith(field_suffix):
                out.append(i)
    return out


def loops(fn, root=None):
    return [i for i in (fn.walk(root) if root is not None else fn.walk()) if fn.N(i)['k'] in ('ForStmt', 'WhileStmt', 'DoStmt', 'CXXForRangeStmt')]


def enclosing_loops(fn, i):
    return [a for a in fn.ancestors(i) if fn.N(a)['k'] in ('ForStmt', 'WhileStmt', 'DoStmt', 'CXXForRangeStmt')]


def event_interval(fn, events, cap=6):
    """(min,max) number of `events` (nodes) evaluated on a path entry -> normal exit, each loop
    body taken at most once (back edges ignored); None if no normal exit"""
    evb = {}
    weights = events if isinstance(events, dict) else {e: (1, 1) for e in events}
    for e, (wl, wh) in weights.items():
        p = fn.point_of(e)
        if p is not None:
            o = evb.get(p[0], (0, 0))
            evb[p[0]] = (o[0] + wl, o[1] + wh)
    # DFS order to find back edges
    color, back = {}, set()
    stack = [(fn.entry, iter([s for (s, _) in fn.succ_edges(fn.entry)]))]
    color[fn.entry] = 1
    order = []
    while stack:
        b, it = stack[-1]
        adv = False
        for s in it:
            if color.get(s, 0) == 0:
                color[s] = 1
                stack.append((s, iter([x for (x, _) in fn.succ_edges(s)])))
                adv = True
                break
            elif color[s] == 1:
                back.add((b, s))
        if not adv:
            color[b] = 2
            order.append(b)
            stack.pop()
    order.reverse()      # topological order of the DAG without back edges
    ab = fn.abnormal_blocks()
    K = 1                # number of back edges a path may take (each loop body is entered at most K+1 times)
    IN = {(fn.entry, 0): (0, 0)}
    res = None
    for k in range(K + 1):
        for b in order:
            if (b, k) not in IN:
                continue
            lo, hi = IN[(b, k)]
            c = evb.get(b, (0, 0))
            lo, hi = min(lo + c[0], cap), min(hi + c[1], cap)
            if b in ab:
                continue
            for (s, _) in fn.succ_edges(b):
                if (b, s) in back:
                    if k >= K:
                        continue
                    key = (s, k + 1)
                elif s == fn.exit:
                    res = (lo, hi) if res is None else (min(res[0], lo), max(res[1], hi))
                    continue
                else:
                    key = (s, k)
                old = IN.get(key)
                IN[key] = (lo, hi) if old is None else (min(old[0], lo), max(old[1], hi))
    return res


def deep_refs(fn, node, depth=4):
    """refs of the subtree, looking through locals that have exactly one definition in the function
    (`T const x = <expr>;`): the refs of the defining expression are added"""
    out = set(fn.subtree_refs(node))
    fn.defs_of_var('')
    frontier = set(out)
    for _ in range(depth):
        new = set()
        for r in frontier:
            if not r.startswith('v:'):
                continue
            ds = fn._defs.get(r, [])
            if len(ds) == 1 and ds[0][1] is not None:
                new |= set(fn.subtree_refs(ds[0][1]))
        new -= out
        if not new:
            break
        out |= new
        frontier = new
    return out


def counting_loop(fn, L):
    """recognise `for(i=C; i < bound; i++)` in its spellings (declaration or assignment in the init clause, or the
    single definition before a for/while whose only other writes are the step; ++i, i++, i+=1, i=i+1 as step).
    Returns dict(var, start (const or None), start_node, step (+1/-1), cond, op, bound) or None."""
    n = fn.N(L)
    if n['k'] not in ('ForStmt', 'WhileStmt') or n.get('cond', -1) is None or n.get('cond', -1) < 0:
        return None
    cond = fn.strip(n['cond'])
    cn = fn.N(cond)
    if cn['k'] != 'BinaryOperator' or cn.get('op') not in ('<', '<=', '>', '>=', '!='):
        return None
    iv = fn.ref_of(cn['ch'][0])
    bound = cn['ch'][1]
    op = cn['op']
    if iv is None or not iv.startswith(('v:', 'p:')):
        iv = fn.ref_of(cn['ch'][1])
        bound = cn['ch'][0]
        op = {'<': '>', '<=': '>=', '>': '<', '>=': '<=', '!=': '!='}[op]
        if iv is None or not iv.startswith(('v:', 'p:')):
            return None

    def step_of(w):
        m = fn.N(w)
        if m['k'] == 'UnaryOperator' and m.get('op') in ('++', '--') and fn.ref_of(m['ch'][0]) == iv:
            return 1 if m['op'] == '++' else -1
        if m['k'] == 'CompoundAssignOperator' and m.get('op') in ('+=', '-=') and fn.ref_of(m['ch'][0]) == iv and fn.const_value(m['ch'][1]) == 1:
            return 1 if m['op'] == '+=' else -1
        if m['k'] == 'BinaryOperator' and m.get('op') == '=' and fn.ref_of(m['ch'][0]) == iv:
            r = fn.N(fn.strip(m['ch'][1]))
            if r['k'] == 'BinaryOperator' and r.get('op') in ('+', '-') and fn.ref_of(r['ch'][0]) == iv and fn.const_value(r['ch'][1]) == 1:
                return 1 if r['op'] == '+' else -1
        return None
    inside = [w for w in writes_to(fn, iv, L) if not (n.get('init', -1) is not None and n.get('init', -1) >= 0 and fn.contains(n['init'], w))]

    def through_pointer(w):
        # `p->f()`, `(*p).f()`, `g(*p)`, `g(p[k])`: the pointee may change, the pointer / iterator itself does not
        m = fn.N(w)
        if m['k'] not in CALL_KINDS:
            return False
        if any(fn.ref_of(a_) == iv for a_ in fn.args(w)):
            return False
        o = fn.obj(w)
        if o is not None and fn.ref_of(o) == iv:
            callee = fn.N(fn.strip(m['ch'][0])) if m['ch'] else {}
            return bool(callee.get('arrow'))
        return True
    inside = [w for w in inside if not through_pointer(w)]
    steps = [step_of(w) for w in inside]
    if len(inside) != 1 or steps[0] is None:
        return None
    w = inside[0]
    if n['k'] == 'ForStmt' and n.get('inc', -1) is not None and n.get('inc', -1) >= 0 and fn.contains(n['inc'], w):
        pass
    else:
        # step inside the body: it must run on every iteration, with no `continue` bypassing it
        body = n['body']
        if [j for j in fn.walk(body) if fn.N(j)['k'] == 'ContinueStmt']:
            return None
        pw = fn.point_of(w)
        pc = fn.point_of(cond)
        if pw is None or pc is None:
            return None
        # every path from the body entry back to the condition passes the step
        anc = [a for a in fn.ancestors(w) if fn.contains(body, a) and fn.N(a)['k'] in ('IfStmt', 'SwitchStmt', 'ForStmt', 'WhileStmt', 'DoStmt', 'ConditionalOperator', 'CXXTryStmt')]
        if anc:
            return None
    start_node = None
    init = n.get('init', -1) if n['k'] == 'ForStmt' else -1
    if init is not None and init >= 0:
        i0 = fn.strip(init)
        m = fn.N(i0)
        if m['k'] == 'DeclStmt':
            for d in m['decls']:
                if d['ref'] == iv and d.get('init') is not None:
                    start_node = d['init']
        elif m['k'] == 'BinaryOperator' and m.get('op') == '=' and fn.ref_of(m['ch'][0]) == iv:
            start_node = m['ch'][1]
    if start_node is None:
        outside = [(d, v) for (d, v) in fn.defs_of_var(iv) if not fn.contains(L, d)]
        if len(outside) == 1 and outside[0][1] is not None and before(fn, outside[0][0], cond):
            start_node = outside[0][1]
    if start_node is None:
        return None
    return dict(var=iv, start=fn.const_value(start_node), start_node=start_node, step=steps[0], cond=cond, op=op, bound=bound)


def deep_calls(fn, match, depth=2):
    """call nodes of `fn` that perform a call matched by match(f, node) either themselves or, for a resolved
    non-virtual helper, on every normal path through the helper (so `helper(); ` stands for the call it wraps)"""
    P = getattr(fn, 'P', None)
    memo = {}

    def always(g, d):
        if g.id in memo:
            return memo[g.id]
        memo[g.id] = False
        ev = sites(g, d)
        memo[g.id] = bool(ev) and always_before_exit(g, ev)
        return memo[g.id]

    def sites(f, d):
        out = []
        for i in f.calls():
            if match(f, i):
                out.append(i)
                continue
            n = f.N(i)
            if d > 0 and P is not None and n.get('callee') and not n.get('virt'):
                g = P.fns.get(n['callee'])
                if g is not None and g.entry is not None and g is not f and always(g, d - 1):
                    out.append(i)
        return out
    return sites(fn, depth)


def emptiness(fn, atom, pol):
    """if the fact (atom evaluated to pol) says that a container is empty / non-empty, return (member call node, is_empty):
    x.empty() | x.size()==0 | x.size()!=0 | x.size()>0 | x.size()<1 | 0==x.size() ...; the call node identifies the container"""
    n = fn.N(atom)
    if n['k'] == 'CXXMemberCallExpr' and short_of(fn.callee(atom)) == 'empty':
        return (atom, bool(pol))
    if n['k'] == 'CXXMemberCallExpr' and short_of(fn.callee(atom)) in ('size', 'length'):
        return (atom, not pol)          # if(x.size()) ...
    if n['k'] == 'BinaryOperator' and n.get('op') in ('==', '!=', '<', '<=', '>', '>='):
        l, r = fn.strip(n['ch'][0]), fn.strip(n['ch'][1])
        op = n['op']
        if fn.N(r)['k'] == 'CXXMemberCallExpr':
            l, r = r, l
            op = {'<': '>', '<=': '>=', '>': '<', '>=': '<=', '==': '==', '!=': '!='}[op]
        if fn.N(l)['k'] != 'CXXMemberCallExpr' or short_of(fn.callee(l)) not in ('size', 'length'):
            return None
        c = fn.const_value(r)
        if c is None:
            return None
        # size() op c   (size() is unsigned)
        if (op, c) in (('==', 0), ('<', 1), ('<=', 0)):
            return (l, bool(pol))
        if (op, c) in (('!=', 0), ('>', 0), ('>=', 1)):
            return (l, not pol)
    return None


def empty_gate(fn, objmatch=None, is_empty=True):
    """gate edges on which a container (selected by objmatch(member call node)) is known to be empty / non-empty"""
    def pred(atom, pol):
        e = emptiness(fn, atom, pol)
        return e is not None and e[1] == is_empty and (objmatch is None or objmatch(e[0]))
    return fn.gate_edges(pred)


def memberwise_eq_missing(P, fn):
    """for `bool T::operator==(T const &o) const`: the fields of T that a `true` result does NOT imply equal
    (each field must appear in a conjunct `f == o.f` of the returned expression).  None if the shape is not understood."""
    rec = P.records.get(fn.record) if fn.record else None
    if rec is None or len(fn.params) != 1:
        return None
    other = fn.params[0]['ref']
    fields = [f['ref'] if isinstance(f, dict) and 'ref' in f else None for f in rec.get('fields', [])]
    names = [f['name'] for f in rec.get('fields', []) if not f.get('static')]
    covered = set()
    rets = fn.returns()
    if len(rets) != 1 or fn.ret_value(rets[0]) is None:
        return None
    for (atom, pol) in fn.cond_facts(fn.ret_value(rets[0]), True):
        n = fn.N(atom)
        if pol is not True or n.get('op') != '==' or n['k'] not in ('BinaryOperator', 'CXXOperatorCallExpr'):
            continue
        ch = n['ch'] if n['k'] == 'BinaryOperator' else n['ch'][1:]
        if len(ch) != 2:
            continue
        pa, pb = fn.access_path(ch[0]), fn.access_path(ch[1])
        if not pa or not pb or len(pa) != 2 or len(pb) != 2 or pa[1] != pb[1]:
            continue
        roots = {pa[0], pb[0]}
        if roots == {'this', other}:
            covered.add(pa[1].rsplit('::', 1)[-1])
    return [nm for nm in names if nm not in covered]


def _ancestors(P, brec):
    """the class and all its (transitive) bases, template-stripped"""
    out, todo = set(), [brec]
    while todo:
        r = todo.pop()
        if r in out:
            continue
        out.add(r)
        for rec in P.brecords.get(r, []):
            todo += [strip_targs(b) for b in rec['bases']]
    return out


def delegation_swaps(P, fn):
    """calls by which `fn` forwards to another implementation of the same virtual method (same method name, callee class is a
    base of / the interface implemented by fn's class): arguments that are plain parameters of fn must stay in their position.
    Returns list of (call node, arg index, own param index, own param name)."""
    out = []
    own = {p['ref']: k for k, p in enumerate(fn.params)}
    for i in fn.calls():
        n = fn.N(i)
        if n['k'] != 'CXXMemberCallExpr' or short_of(fn.callee(i)) != fn.short or not n.get('virt'):
            continue
        crec = strip_targs(n.get('rec') or '')
        common = _ancestors(P, crec) & _ancestors(P, fn.brecord)
        if not any(m.get('short') == fn.short and m.get('virtual') for a in common for rec in P.brecords.get(a, []) for m in rec.get('methods', [])):
            continue        # same name in an unrelated interface (session_storage::load vs session_api::load)
        args = fn.args(i)
        if len(args) != len(fn.params):
            continue
        for j, a in enumerate(args):
            r = fn.ref_of(a)
            if r in own:
                out.append((i, j, own[r], fn.params[own[r]]['name']))
    return out


def expr_calls_deep(fn, node, depth=3):
    """call nodes in the subtree of `node`, plus those in the defining expressions of the single-definition locals it mentions"""
    out = list(fn.calls(node))
    fn.defs_of_var('')
    seen = set()
    frontier = set(r for r in fn.subtree_refs(node) if r.startswith('v:'))
    for _ in range(depth):
        nxt = set()
        for r in frontier - seen:
            seen.add(r)
            ds = fn._defs.get(r, [])
            if len(ds) == 1 and ds[0][1] is not None:
                out += list(fn.calls(ds[0][1]))
                nxt |= set(x for x in fn.subtree_refs(ds[0][1]) if x.startswith('v:'))
        frontier = nxt
    return out


def true_only_after(fn, ret, events, depth=0):
    """the value returned by `ret` can be true only if one of `events` was evaluated before: a constant false return is fine; a
    constant true return must be dominated by an event; a returned bool local must get its non-false values only at points
    dominated by an event (`removed = true` right after the erase; `return removed`)"""
    v = fn.ret_value(ret)
    if v is None:
        return False
    cv = fn.const_value(v)
    if cv is not None:
        return cv == 0 or any(before(fn, e, ret) for e in events)
    r = fn.ref_of(v)
    if r and r.startswith('v:') and depth < 2:
        ok = True
        for (d, val) in fn.defs_of_var(r):
            if val is None:
                return False
            c = fn.const_value(val)
            if c == 0:
                continue
            pd = fn.point_of(d)
            if pd is None or not any(before(fn, e, d) for e in events):
                ok = False
        return ok
    return any(before(fn, e, ret) for e in events)


def symb_with_locals(fn, exclude=()):
    """lin.Symb for `fn` in which single-definition locals with a linear initialiser stand for that initialiser
    (`size_t rec_size = a + b;` ... `x + rec_size`  ->  x + a + b)"""
    from . import lin as _lin
    env = {}
    for _ in range(3):
        S0 = _lin.Symb(fn, env)
        for i in fn.all_nodes():
            if fn.N(i)['k'] == 'DeclStmt':
                for d in fn.N(i)['decls']:
                    if d.get('init') is not None and d['ref'] not in exclude and len(fn.defs_of_var(d['ref'])) == 1 and not d.get('isref'):
                        env[d['ref']] = S0.lin(d['init'])
    return _lin.Symb(fn, env)


def canon(fn, i, swap=None):
    """canonical text of a statement / expression tree: node kinds, operators and names (locals and parameters by name, fields and
    functions by their last component), casts and parentheses dropped.  `swap`: dict of names exchanged (mirror image)"""
    swap = swap or {}

    def nm(r):
        base = r.split(':', 1)[1] if ':' in r else r
        base = base.split('@')[0].split('#')[0]
        base = strip_targs(base).rsplit('::', 1)[-1].split('(')[0]
        return swap.get(base, base)

    def go(j):
        j = fn.strip(j)
        n = fn.N(j)
        k = n['k']
        if k == 'CompoundStmt' and len(n['ch']) == 1:
            return go(n['ch'][0])
        parts = [k]
        if 'op' in n:
            parts.append(n['op'])
        if 'ref' in n and k in ('DeclRefExpr', 'MemberExpr'):
            parts.append(nm(n['ref']))
        if 'cv' in n and k in ('IntegerLiteral', 'CXXBoolLiteralExpr', 'CharacterLiteral'):
            parts.append(str(n['cv']))
        if k == 'IfStmt':
            kids = [n.get('cond', -1), n.get('then', -1), n.get('else', -1)]
        elif k == 'ReturnStmt' or k == 'InlReturnStmt':
            kids = n['ch']
        else:
            kids = n['ch']
        if k in CALL_KINDS and n.get('cn'):
            parts.append(nm('x:' + n['cn']))
        return '(' + ' '.join(parts + [go(c) for c in kids if c is not None and c >= 0]) + ')'
    return go(i)


def body_statements(fn):
    b = fn.N(fn.body)
    return list(b['ch']) if b['k'] == 'CompoundStmt' else [fn.body]


def narrowed_char_eof_tests(f):
    """comparisons with EOF (-1) whose other operand is a plain `char` widened implicitly: after `char t = c;` the test
    `t != EOF` is false for byte 0xFF - the character must be tested as the int it arrived as (or through to_int_type)"""
    out = []
    for i in f.all_nodes():
        n = f.N(i)
        if n['k'] != 'BinaryOperator' or n.get('op') not in ('==', '!='):
            continue
        for x, y in ((n['ch'][0], n['ch'][1]), (n['ch'][1], n['ch'][0])):
            if f.const_value(y) != -1:
                continue
            m = f.N(x)
            while m['k'] == 'ParenExpr' and m.get('ch'):
                m = f.N(m['ch'][0])
            if m['k'] == 'ImplicitCastExpr' and m.get('cast') == 'IntegralCast' and m.get('ch'):
                st = (f.types[f.N(m['ch'][0])['t']] if f.N(m['ch'][0]).get('t') is not None else '') or ''
                if st.replace('const ', '').strip() in ('char', 'signed char'):
                    out.append(i)
    return out


def copy_coverage(P, record, skip=()):
    """(fields of `record` seen in its member functions, {copy constructor / copy assignment -> fields NOT taken from the source})
    a field counts as copied when the constructor initialiser (or an assignment in operator=) of that field mentions the same
    field of the source object"""
    from vlib import model as _m
    fields = set()
    fns = [g for g in P.fns.values() if (g.record or '') == record and g.body is not None]
    for g in fns:
        for i in g.all_nodes():
            r = g.N(i).get('ref') if g.N(i)['k'] == 'MemberExpr' else None
            if r and r.startswith('f:') and _m.strip_targs(r).rsplit('::', 1)[0] == 'f:' + record:
                fields.add(r)
    fields = set(x for x in fields if x.rsplit('::', 1)[-1] not in skip)
    out = {}
    for g in fns:
        if not (len(g.params) == 1 and record.rsplit('::', 1)[-1] in (g.types[g.params[0]['t']] or '') and (g.kind == 'ctor' or g.short == 'operator=')):
            continue
        src = g.params[0]['ref']
        done = set()
        if g.kind == 'ctor':
            for x in g.d.get('inits', []):
                if x.get('field') in fields and src in g.subtree_refs(x['n']) and x['field'] in g.subtree_refs(x['n']):
                    done.add(x['field'])
        for i in g.all_nodes():
            n = g.N(i)
            if (n['k'] == 'BinaryOperator' and n.get('op') == '=') or (n['k'] == 'CXXOperatorCallExpr' and n.get('op') == '='):
                ch = n['ch'][-2:]
                lf = g.ref_of(ch[0])
                if lf in fields and src in g.subtree_refs(ch[1]) and lf in g.subtree_refs(ch[1]):
                    done.add(lf)
            if n['k'] in ('CXXMemberCallExpr',) and short_of(g.callee(i) or '') in ('swap', 'assign') and src in g.subtree_refs(i):
                for r_ in g.subtree_refs(i):
                    if r_ in fields:
                        done.add(r_)
        # through a setter of the same class: set(other.a_, other.b_) where set() stores its k-th parameter in that same field
        for c in g.calls():
            h = P.fns.get(g.N(c).get('callee') or '')
            if h is None or h is g or (h.record or '') != record or h.body is None or len(g.args(c)) != len(h.params):
                continue
            for p_, a_ in zip(h.params, g.args(c)):
                af = [x for x in g.subtree_refs(a_) if x in fields]
                if src not in g.subtree_refs(a_) or len(af) != 1:
                    continue
                for i in h.all_nodes():
                    n = h.N(i)
                    if ((n['k'] == 'BinaryOperator' and n.get('op') == '=') or (n['k'] == 'CXXOperatorCallExpr' and n.get('op') == '=')) and \
                            h.ref_of(n['ch'][-2]) == af[0] and p_['ref'] in h.subtree_refs(n['ch'][-1]):
                        done.add(af[0])
        out[g] = sorted(fields - done)
    return sorted(fields), out


def overflow_drops_char(f):
    """for a std::streambuf::overflow(int c) override: the success returns (anything but the constant EOF) that can be reached without either the
    `c == EOF` edge or an evaluation of c outside an EOF comparison - overflow(c) has to take c (store it, put it, hand it on), making room is not enough"""
    if not f.params:
        return []
    cref = f.params[0]['ref']
    uses = []
    for i in f.all_nodes():
        n = f.N(i)
        if n['k'] != 'DeclRefExpr' or n.get('ref') != cref:
            continue
        cmp_ = False
        for a in f.ancestors(i):
            m = f.N(a)
            if m['k'] in ('ImplicitCastExpr', 'ParenExpr'):
                continue
            if m['k'] == 'BinaryOperator' and m.get('op') in ('==', '!=') and any(f.const_value(c_) == -1 for c_ in m['ch']):
                cmp_ = True
            break
        if not cmp_:
            uses.append(i)

    def is_eof(atom, pol):
        n = f.N(atom)
        if n['k'] != 'BinaryOperator' or n.get('op') not in ('==', '!='):
            return False
        sides = n['ch']
        if not any(f.const_value(s_) == -1 for s_ in sides) or not any(f.ref_of(s_) == cref for s_ in sides):
            return False
        return pol is (n.get('op') == '==')
    gates = f.gate_edges(is_eof)
    cut_edges = set(tuple(e) for e in gates)
    out = []
    for r in f.returns():
        v = f.ret_value(r)
        if v is None or f.const_value(v) == -1:
            continue
        extra = set()
        vref = f.ref_of(v)
        if vref and vref.startswith('v:') and vref != cref:
            # `return r;` of a status variable: the paths on which r was tested non-zero are the failure paths
            def failed(atom, pol, vref=vref):
                n = f.N(atom)
                if n['k'] == 'BinaryOperator' and n.get('op') in ('==', '!=') and f.ref_of(n['ch'][0]) == vref and f.const_value(n['ch'][1]) == 0:
                    return pol is (n.get('op') == '!=')
                return f.ref_of(atom) == vref and pol is True
            extra = set(tuple(e) for e in f.gate_edges(failed))
        reach = f.reachable_blocks(cut_edges=cut_edges | extra, cut_blocks=blocks_of(f, uses) | f.abnormal_blocks(), with_catch=False)
        p = f.point_of(r)
        if p is not None and p[0] in reach:
            out.append(r)
    return out


def documented_config_keys(path):
    """dotted option paths of the reference configuration (src/config.js: extended JSON; options that are commented out count - the file documents every option that way).
    returns (set of paths, ok) - ok is False when the braces do not balance (the file could not be understood)"""
    import re as _re
    toks = []
    for line in open(path, encoding='latin-1'):
        i, n = 0, len(line)
        while i < n:
            ch = line[i]
            if ch == '"':
                j = i + 1
                while j < n and line[j] != '"':
                    j += 2 if line[j] == '\\' else 1
                toks.append(('s', line[i + 1:j]))
                i = j + 1
            elif line.startswith('//', i):
                rest = line[i:].lstrip('/').strip()
                if _re.match(r'"[A-Za-z_0-9]+"\s*:', rest):
                    i += 2
                    while i < n and line[i] == '/':
                        i += 1
                else:
                    break
            elif ch in '{}[]:,':
                toks.append((ch, ch))
                i += 1
            else:
                i += 1
    keys, stack, pend = set(), [], None
    ok = True
    for k, (t, v) in enumerate(toks):
        if t == 's' and k + 1 < len(toks) and toks[k + 1][0] == ':' and (not stack or stack[-1][0] == '{'):
            pend = v
            keys.add('.'.join([s[1] for s in stack if s[0] == '{' and s[1]] + [v]))
        elif t in '{[':
            stack.append((t, pend if (k and toks[k - 1][0] == ':') else None))
            pend = None
        elif t in '}]':
            if not stack or stack[-1][0] != ('{' if t == '}' else '['):
                ok = False
                break
            stack.pop()
    return keys, ok and not stack
