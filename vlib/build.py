"""E0: build model.  Compilation database from the repo's own ninja file, de-duplicated,
and a parallel driver around the E1 extractor.  Nothing is cached between runs."""
import json, os, shlex, subprocess, sys, tempfile, shutil, atexit, hashlib, glob
from concurrent.futures import ThreadPoolExecutor

VERIF = os.path.dirname(os.path.dirname(os.path.abspath(__file__)))
REPO = os.environ.get('VERIF_REPO', '/repo')
FACTS = os.path.join(VERIF, 'bin', 'cppcms-facts')
RESOURCE_DIR = '/usr/lib/llvm-14/lib/clang/14.0.6'


class AnalysisBroken(Exception):
    pass


_scratch = None


def scratch():
    global _scratch
    if _scratch is None:
        _scratch = tempfile.mkdtemp(prefix='cppcms-verif-')
        atexit.register(lambda: shutil.rmtree(_scratch, ignore_errors=True))
    return _scratch


def _reroot(x):
    """analyse a scratch copy of the tree (self-test variants): same flags, paths re-rooted"""
    if REPO == '/repo':
        return x
    if isinstance(x, str):
        return x.replace('/repo/', REPO + '/').replace('-I/repo', '-I' + REPO) if not x.startswith('/repo/_build') and '/repo/_build' not in x else x
    return x


def _raw_compdb():
    bdir = os.path.join('/repo' if REPO != '/repo' else REPO, '_build')
    if os.path.exists(os.path.join(bdir, 'build.ninja')):
        try:
            out = subprocess.run(['ninja', '-C', bdir, '-t', 'compdb'], check=True, stdout=subprocess.PIPE,
                                 stderr=subprocess.PIPE).stdout
            return json.loads(out)
        except Exception as e:  # fall through to the synthetic database
            sys.stderr.write('compdb from ninja failed: %s\n' % e)
    return None


def _default_flags(path):
    inc = ['-I%s/booster' % REPO, '-I%s/src' % REPO, '-I%s/private' % REPO, '-I%s/cppcms_boost' % REPO,
           '-I%s/_build' % REPO, '-I%s/_build/booster' % REPO, '-I%s' % REPO]
    defs = ['-DCPPCMS_BOOST_ALL_NO_LIB']
    if '/booster/lib/' in path:
        defs = ['-DBOOSTER_SOURCE', '-Dbooster_EXPORTS']
        inc = ['-I%s/booster' % REPO, '-I%s/_build/booster' % REPO]
        # per-module include dirs as in booster/CMakeLists.txt
        for m in glob.glob('%s/booster/lib/*' % REPO):
            inc.append('-I' + m)
    else:
        defs.append('-Dcppcms_EXPORTS')
    return defs + inc + ['-std=c++11', '-fPIC']


def compile_commands(extra_defs=()):
    """file -> argv (clang++ ...), shared-library entries win over test/static ones."""
    db = _raw_compdb()
    cmds = {}
    if db:
        for e in db:
            f = e['file']
            if not f.endswith(('.cpp', '.c', '.cc')):
                continue
            cmd = e['command']
            pri = 2 if ('cppcms.dir' in cmd or 'booster.dir' in cmd) and '-static' not in e.get('output', '') else 1
            if '_EXPORTS' in cmd:
                pri = 3
            if f in cmds and cmds[f][0] >= pri:
                continue
            cmds[f] = (pri, cmd)
    out = {}
    for f, (_, cmd) in cmds.items():
        argv = _clean(shlex.split(cmd), f, extra_defs)
        if REPO != '/repo':
            argv = [_reroot(a) for a in argv]
            out[_reroot(f)] = argv
        else:
            out[f] = argv
    return out


def _clean(argv, f, extra_defs=()):
    res = ['clang++']
    skip = 0
    for a in argv[1:]:
        if skip:
            skip -= 1
            continue
        if a in ('-MD', '-MMD', '-c'):
            continue
        if a in ('-MT', '-MF', '-o', '-MQ'):
            skip = 1
            continue
        if a == f:
            continue
        if a.startswith('-O') or a == '-g' or a == '-DNDEBUG':
            continue
        res.append(a)
    res += ['-UNDEBUG', '-w', '-O0', '-resource-dir', RESOURCE_DIR, '-fsyntax-only']
    res += list(extra_defs)
    return res


def flags_for(path, cmds, extra_defs=()):
    path = os.path.abspath(path)
    if path in cmds:
        return cmds[path]
    # witness units and files not in the database: flags of the library they belong to
    ref = None
    if path.startswith(REPO + '/booster/lib/'):
        ref = next((c for p, c in cmds.items() if p.startswith(REPO + '/booster/lib/')), None)
    else:
        ref = cmds.get(REPO + '/src/service.cpp')
    if ref is not None:
        return ref
    return _clean(['c++'] + _default_flags(path), path, extra_defs)


def extract(units, include_re=None, record_re=None, extra_defs=(), jobs=16):
    """Run E1 over `units` (absolute paths). Returns list of loaded fact dicts."""
    if not os.access(FACTS, os.X_OK):
        raise AnalysisBroken('fact extractor %s missing: run setup_cmd (./setup.sh)' % FACTS)
    cmds = compile_commands(extra_defs)
    if REPO != '/repo':
        include_re = (include_re or '^/repo/(src|private|cppcms|booster/lib)/').replace('^/repo/', '^' + REPO + '/')
        record_re = (record_re or '^/repo/(src|private|cppcms|booster)/').replace('^/repo/', '^' + REPO + '/')
    sdir = tempfile.mkdtemp(prefix='facts-', dir=scratch())
    db = []
    for u in units:
        if not os.path.exists(u):
            raise AnalysisBroken('unit %s does not exist' % u)
        argv = flags_for(u, cmds, extra_defs) + [u]
        db.append({'directory': os.path.dirname(u), 'file': u, 'arguments': argv})
    with open(os.path.join(sdir, 'compile_commands.json'), 'w') as fh:
        json.dump(db, fh)

    def one(u):
        out = os.path.join(sdir, hashlib.sha1(u.encode()).hexdigest()[:16] + '.json')
        argv = [FACTS, '-p', sdir, '-o', out]
        if include_re:
            argv += ['--include-re', include_re]
        if record_re:
            argv += ['--record-re', record_re]
        argv.append(u)
        p = subprocess.run(argv, stdout=subprocess.PIPE, stderr=subprocess.PIPE)
        if p.returncode != 0 or not os.path.exists(out):
            raise AnalysisBroken('extractor failed on %s:\n%s' % (u, p.stderr.decode(errors='replace')[-3000:]))
        with open(out) as fh:
            d = json.load(fh)
        os.unlink(out)
        return d

    with ThreadPoolExecutor(max_workers=jobs) as ex:
        res = list(ex.map(one, units))
    shutil.rmtree(sdir, ignore_errors=True)
    return res
