"""LINEAR: how many times is a completion-handler token consumed along each CFG path.
Forward dataflow over (min,max) with max saturating at 2.  Every syntactic occurrence of the
token is a consumption (invoke, pass, copy, capture) except boolean tests; calls to analysed
functions whose consumption depends on their boolean result (dont_block(h)) are charged on the
branch edge that knows the result."""
import collections
from .model import CALL_KINDS, strip_targs
from .build import AnalysisBroken
from . import q

HANDLER_TYPE_MARK = 'booster::callback<'
NONCONSUMING_METHODS = {'operator bool', 'operator!', 'empty'}


def is_handler_type(t):
    if not t:
        return False
    t = t.replace('const ', '').strip()
    return t.startswith(HANDLER_TYPE_MARK) and not t.endswith('*')


def _bool_context(fn, i):
    """is occurrence i only tested for emptiness"""
    child = i
    for a in fn.ancestors(i):
        n = fn.N(a)
        k = n['k']
        if k in ('ParenExpr', 'ImplicitCastExpr', 'ExprWithCleanups', 'MaterializeTemporaryExpr', 'CXXBindTemporaryExpr'):
            if k == 'ImplicitCastExpr' and n.get('cast') in ('UserDefinedConversion',):
                return True
            child = a
            continue
        if k == 'UnaryOperator' and n.get('op') == '!':
            return True
        if k == 'MemberExpr' and n.get('ref', '').startswith('fn:'):
            sh = q.short_of(strip_targs(n['ref'][3:].split('(')[0]))
            if sh in NONCONSUMING_METHODS or 'operator bool' in n['ref']:
                return True
            return False
        if k == 'CXXOperatorCallExpr' and n.get('op') == '!':
            return True
        return False
    return False


class Token(object):
    def __init__(self, fn, kind, ref, name):
        self.fn, self.kind, self.ref, self.name = fn, kind, ref, name
        self.occ = []


def tokens_of(fn, P):
    """handler tokens of a function: handler-typed parameters; for methods of records that own
    handler-typed fields and are callable objects: each such field (this-value uses count too)"""
    toks = []
    for p in fn.params:
        if is_handler_type(fn.types[p['t']].rstrip('&').strip()):
            toks.append(Token(fn, 'param', p['ref'], p['name']))
    if fn.record and fn.kind in ('method', 'conversion'):
        rec = P.records.get(fn.record)
        if rec and _is_callable_record(rec, P):
            for f in rec['fields']:
                if is_handler_type(f['type']):
                    toks.append(Token(fn, 'field', f['ref'], 'this->' + f['name']))
    for t in toks:
        t.occ = occurrences(fn, t)
    return toks


def _is_callable_record(rec, P):
    if any(m['short'] == 'operator()' for m in rec['methods']):
        return True
    return any('booster::callable<' in b for b in rec['bases'])


def occurrences(fn, tok):
    out = []
    for i in fn.all_nodes():
        n = fn.N(i)
        if tok.kind == 'param':
            if n['k'] == 'DeclRefExpr' and n.get('ref') == tok.ref and not _bool_context(fn, i):
                out.append(i)
        else:
            if n['k'] == 'MemberExpr' and n.get('ref') == tok.ref and n['ch'] and fn.N(fn.strip(n['ch'][0]))['k'] == 'CXXThisExpr':
                if not _bool_context(fn, i):
                    out.append(i)
            elif n['k'] == 'CXXThisExpr':
                par = fn.parent.get(i)
                # `this` used as a value (handed to intrusive_ptr / a call), not as the base of a member access
                while par is not None and fn.N(par)['k'] in ('ImplicitCastExpr', 'ParenExpr'):
                    par = fn.parent.get(par)
                if par is not None and fn.N(par)['k'] != 'MemberExpr':
                    out.append(i)
    return [i for i in out if fn.point_of(i) is not None and i in fn.pos]


class Linear(object):
    """(min,max) consumption counts of one token at every normal exit of fn"""

    def __init__(self, fn, tok, summaries=None):
        self.fn, self.tok = fn, tok
        self.summ = summaries or {}
        self.deferred = {}     # call node -> (count_if_true, count_if_false)
        self.direct = collections.Counter()   # node -> count charged at the node
        for o in tok.occ:
            c = self._direct_call(o)
            s = None
            if c is not None:
                callee = fn.N(c).get('callee')
                idx = self._arg_index(c, o)
                s = self.summ.get((callee, idx))
            if s is not None and s.get('T') != s.get('F') and self._is_condition(c):
                self.deferred[c] = (s['T'], s['F'])
            elif s is not None:
                self.direct[o] += max(s.get('T', (0, 0))[1], s.get('F', (0, 0))[1], s.get('V', (0, 0))[1])
                self.direct[o] += 0
                if self.direct[o] == 0:
                    self.direct[o] = 0
            else:
                self.direct[o] += 1
        self._solve()

    def _direct_call(self, o):
        fn = self.fn
        child = o
        for a in fn.ancestors(o):
            n = fn.N(a)
            if n['k'] in ('ParenExpr', 'ImplicitCastExpr', 'ExprWithCleanups', 'MaterializeTemporaryExpr', 'CXXBindTemporaryExpr'):
                child = a
                continue
            if n['k'] in CALL_KINDS:
                return a
            return None
        return None

    def _arg_index(self, c, o):
        fn = self.fn
        args = fn.args(c)
        n = fn.N(c)
        if n['k'] == 'CXXOperatorCallExpr' and n.get('rec'):
            args = args[1:]
        for k, a in enumerate(args):
            if fn.contains(a, o):
                return k
        return None

    def _is_condition(self, c):
        fn = self.fn
        for B in fn.blocks.values():
            for (s, lab) in fn.succ_edges(B.id):
                for (atom, pol) in fn.edge_facts(B.id, lab):
                    if atom == c:
                        return True
        return False

    def _solve(self):
        fn = self.fn
        INF = None
        self.IN = {}
        self.IN[fn.entry] = (0, 0)
        work = collections.deque([fn.entry])
        self.exit_states = []   # (block, (min,max)) for edges into EXIT
        OUTS = {}
        it = 0
        while work:
            it += 1
            if it > 50000:
                raise AnalysisBroken('linear dataflow does not converge in %s' % fn.id)
            b = work.popleft()
            lo, hi = self.IN[b]
            for e in fn.blocks[b].elems:
                if 'n' in e:
                    c = self.direct.get(e['n'], 0)
                    if c:
                        lo, hi = min(lo + c, 2), min(hi + c, 2)
            OUTS[b] = (lo, hi)
            for (s, lab) in fn.succ_edges(b):
                l2, h2 = lo, hi
                if lab in (True, False):
                    for (atom, pol) in fn.edge_facts(b, lab):
                        if atom in self.deferred:
                            ct, cf = self.deferred[atom]
                            c = ct if pol else cf
                            l2, h2 = min(l2 + c[0], 2), min(h2 + c[1], 2)
                old = self.IN.get(s)
                new = (l2, h2) if old is None else (min(old[0], l2), max(old[1], h2))
                if new != old:
                    self.IN[s] = new
                    work.append(s)
        self.OUT = OUTS

    def exits(self):
        """(min,max) over normal paths to EXIT, and per constant boolean return value"""
        fn = self.fn
        ab = fn.abnormal_blocks()
        res = {'all': None, 'T': None, 'F': None}

        def join(a, b):
            return b if a is None else (min(a[0], b[0]), max(a[1], b[1]))
        for b, st in self.OUT.items():
            if b in ab:
                continue
            if fn.exit in [s for (s, _) in fn.succ_edges(b)]:
                res['all'] = join(res['all'], st)
                rv = None
                for e in fn.blocks[b].elems:
                    if 'n' in e and fn.N(e['n'])['k'] == 'ReturnStmt':
                        v = fn.ret_value(e['n'])
                        rv = fn.const_value(v) if v is not None else None
                if rv == 1:
                    res['T'] = join(res['T'], st)
                elif rv == 0:
                    res['F'] = join(res['F'], st)
                else:
                    res['T'] = join(res['T'], st)
                    res['F'] = join(res['F'], st)
        return res

    def double_sites(self):
        """occurrences reached with count already >= 1 on some path (second consumption)"""
        fn = self.fn
        out = []
        for b, st in self.IN.items():
            lo, hi = st
            for e in fn.blocks[b].elems:
                if 'n' in e:
                    c = self.direct.get(e['n'], 0)
                    if c:
                        if hi >= 1:
                            out.append(e['n'])
                        lo, hi = min(lo + c, 2), min(hi + c, 2)
        return out


def compute_summaries(P, fns):
    """(callee id, arg index) -> {'T':(min,max),'F':(min,max)} for bool-returning analysed functions
    whose handler parameter consumption depends on the returned constant"""
    summ = {}
    for f in fns:
        if f.ret != 'bool':
            continue
        for k, p in enumerate(f.params):
            if not is_handler_type(f.types[p['t']].rstrip('&').strip()):
                continue
            tok = Token(f, 'param', p['ref'], p['name'])
            tok.occ = occurrences(f, tok)
            L = Linear(f, tok, {})
            ex = L.exits()
            if ex['T'] is not None and ex['F'] is not None:
                summ[(f.id, k)] = {'T': ex['T'], 'F': ex['F']}
    return summ
