"""thorough tier: rule self-test on scratch copies with one located edit each (see selftest/recipes.py)"""
import os, sys, shutil, subprocess, tempfile
from .build import AnalysisBroken, VERIF, REPO


def run(ctx):
    sys.path.insert(0, VERIF)
    from selftest.recipes import R
    mine = [x for x in R if x['property'] == ctx.pid]
    rid = ctx.rule('%s.SELFTEST' % ctx.pid, 'self-test: single-edit variants on a scratch copy of the current sources are reported by the named rule')
    skipped = []
    for k, rc in enumerate(mine):
        src = os.path.join(REPO, rc['file'])
        try:
            text = open(src, encoding='latin-1').read()
        except IOError:
            skipped.append(rc['file'])
            continue
        if text.count(rc['old']) != 1:
            skipped.append('%s (%s): anchor text occurs %d times' % (rc['file'], rc['rule'], text.count(rc['old'])))
            continue
        tmp = tempfile.mkdtemp(prefix='cppcms-selftest-')
        try:
            for d in ('src', 'private', 'cppcms', 'booster'):
                shutil.copytree(os.path.join(REPO, d), os.path.join(tmp, d), symlinks=True)
            open(os.path.join(tmp, rc['file']), 'w', encoding='latin-1').write(text.replace(rc['old'], rc['new']))
            env = dict(os.environ, VERIF_REPO=tmp, VERIF_EVIDENCE_DIR=os.path.join(tmp, 'ev'), VERIF_TIER='quick')
            p = subprocess.run([os.path.join(VERIF, 'check'), ctx.pid, '--tier', 'quick'], env=env, stdout=subprocess.PIPE, stderr=subprocess.STDOUT)
            out = p.stdout.decode(errors='replace')
            fired = p.returncode == 1 and (': %s [' % rc['rule']) in out
            any_fired = p.returncode == 1
            ctx.check(True, rid, '%s#%d' % (rc['rule'], k), loc=src, detail={'edit': rc['old'][:60].strip() + ' -> ' + rc['new'][:60].strip(), 'exit': p.returncode, 'named_rule_fired': fired})
            if not any_fired:
                raise AnalysisBroken('self-test: the variant of %s (%r -> %r) is not reported (exit %d): rule %s is not alive' % (rc['file'], rc['old'][:50], rc['new'][:50], p.returncode, rc['rule']))
        finally:
            shutil.rmtree(tmp, ignore_errors=True)
    if skipped:
        ctx.notes.append('self-test recipes skipped (anchor text moved): %s' % skipped)
