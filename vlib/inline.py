"""Second view of the program: same-unit helper functions flattened into their callers (AST copy + CFG splice).

Used only as a cross-check (see `check`): a rule that fails on the program as written is re-evaluated on this view; a property
violation has to be visible in both, an artefact of how the code is cut into functions is visible in one only.

What is flattened: calls to a non-virtual function of the same translation unit (free / static function, or a method of the same
class invoked on `this`) that has a body, is not recursive, is reasonably small, and whose name no rule mentions (the names rules
mention are anchors; they keep their identity).  The call node stays where it is; the helper's statements become reachable from
it (`inl` child list, honoured by statement-level walks), its blocks are spliced into the caller's CFG in front of the call
element, `return` statements of the helper become `InlReturnStmt` (so they are not mistaken for returns of the caller) and, when
the caller branches directly on the call's value, constant returns are correlated with that branch (a tag carried to the join
block, as for materialised `&&`/`||`).  Parameters the helper does not modify and whose argument is free of side effects are
replaced by the argument expression; the others become renamed locals initialised from the argument."""
import os, re, glob
from .model import Block, CALL_KINDS

ID_KEYS = ('init', 'cond', 'then', 'else', 'body', 'lhs', 'rhs', 'sub', 'inc', 'cvar', 'range', 'var')
MAX_NODES = 900
MAX_SPLICES = 16
_anchors = None


def anchors():
    global _anchors
    if _anchors is None:
        here = os.path.dirname(os.path.dirname(os.path.abspath(__file__)))
        words = set()
        import tokenize
        # the rule file of the property being decided and the rule files it imports: a word in some other property's rules
        # (a dict key 'fail' in C15) must not decide how C17 sees a helper called fail()
        pid = os.environ.get('VERIF_INLINE', '')
        files = []
        todo = [os.path.join(here, 'rules', pid + '.py')] if re.match(r'^C\d\d$', pid) else glob.glob(os.path.join(here, 'rules', '*.py'))
        while todo:
            p = todo.pop()
            if p in files or not os.path.exists(p):
                continue
            files.append(p)
            # the property's own file: every import; a file it imports from: only the module-level imports (what a shared helper
            # such as rules.C05.load can depend on), not the imports inside that property's run()
            own = len(files) == 1
            for m in re.finditer((r'^\s*' if own else r'^') + r'(?:from rules(?:\.(C\d\d))? import ([^\n]+)|import rules\.(C\d\d))', open(p).read(), re.M):
                for name in ([m.group(1)] if m.group(1) else []) + ([m.group(3)] if m.group(3) else []) + re.findall(r'\bC\d\d\b', m.group(2) or ''):
                    todo.append(os.path.join(here, 'rules', name + '.py'))
        for p in files:
            # identifiers of the rule code and of string literals that are names (no blank inside); prose - rule descriptions and
            # messages - is not a place a function is looked up by, and its words ("fail", "copy", ...) must not pin helpers
            with open(p, 'rb') as fh:
                for tok in tokenize.tokenize(fh.readline):
                    if tok.type == tokenize.NAME:
                        words.add(tok.string)
                    elif tok.type == tokenize.STRING and ' ' not in tok.string.strip('rbuRBU').strip('\'"'):
                        words |= set(re.findall(r'[A-Za-z_][A-Za-z0-9_]*', tok.string))
        _anchors = words
    return _anchors


def _pure(f, a):
    """argument expression that can be re-read any number of times: no assignment, ++/--, and only accessor calls"""
    for j in f.walk(a):
        n = f.nodes[j]
        if n['k'] in ('CompoundAssignOperator',) or (n['k'] == 'BinaryOperator' and n.get('op') == '=') or \
                (n['k'] == 'UnaryOperator' and n.get('op') in ('++', '--')) or n['k'] in ('CXXNewExpr', 'CXXDeleteExpr', 'LambdaExpr', 'CXXThrowExpr'):
            return False
        if n['k'] in CALL_KINDS:
            sh = (n.get('cn') or '').rsplit('::', 1)[-1]
            if n['k'] in ('CXXConstructExpr', 'CXXTemporaryObjectExpr'):
                continue
            if sh not in ('c_str', 'data', 'size', 'length', 'empty', 'begin', 'end', 'get', 'operator->', 'operator*', 'operator[]', 'front', 'back', 'first', 'second'):
                return False
    return True


def candidate(f, c, stack):
    P = getattr(f, 'P', None)
    n = f.nodes[c]
    if P is None or n['k'] not in ('CallExpr', 'CXXMemberCallExpr') or not n.get('callee') or n.get('virt'):
        return None
    g = P.fns.get(n['callee'])
    if g is not None and g.types is not f.types:
        g = P.fn_in_unit(g.id, f.unit)          # the same (header) function as seen by f's translation unit
    if g is None or g is f or g.id in stack or g.types is not f.types or g.body is None or g.body < 0 or g.entry is None:
        return None
    if g.kind not in ('function', 'method') or g.short in anchors() or g.short.startswith('operator'):
        return None
    if n['k'] == 'CXXMemberCallExpr':
        o = f.obj(c)
        if g.record != f.record or o is None or f.nodes[f.strip(o)]['k'] != 'CXXThisExpr':
            return None
    elif g.kind == 'method' and g.record != f.record:
        return None
    if len(g.nodes) > MAX_NODES or len(f.args(c)) != len(g.params):
        return None
    if any(m['k'] in ('GotoStmt', 'LabelStmt', 'IndirectGotoStmt', 'CoroutineBodyStmt') for m in g.nodes[:g._n_own]):
        return None
    if c not in f.pos:
        return None
    return g


def flatten(f, stack=(), done=None):
    """inline candidate helpers into f (helpers first flattened themselves); returns the names inlined"""
    done = done if done is not None else {}
    if f.id in done:
        return done[f.id]
    done[f.id] = []
    if f.entry is None:
        return []
    names = []
    k = 0
    # call sites are collected before splicing (splicing appends nodes); process later sites of a block first so that indices stay valid
    sites = [c for c in range(f._n_own) if f.nodes[c]['k'] in ('CallExpr', 'CXXMemberCallExpr')]
    sites = [c for c in sites if candidate(f, c, stack + (f.id,)) is not None]
    sites.sort(key=lambda c: (f.pos[c][0], -f.pos[c][1]))
    for c in sites[:MAX_SPLICES]:
        g = candidate(f, c, stack + (f.id,))
        if g is None:
            continue
        names += flatten(g, stack + (f.id,), done)
        try:
            _splice(f, c, g, '%s.%d' % (f.id[-6:].replace('#', ''), k))
        except _Skip:
            continue
        k += 1
        names.append(g.short)
    if k:
        f._n_own = len(f.nodes)
        for a in ('_conf', '_join', '_defs', '_flagsrc', '_twins', '_sweq', '_imp'):
            if hasattr(f, a):
                delattr(f, a)
        f._inl = {}
        f.try_blocks = [B.id for B in f.blocks.values() if B.term is not None and f.nodes[B.term]['k'] == 'CXXTryStmt']
        for B in f.blocks.values():
            B.preds = []
        for B in f.blocks.values():
            for s in B.succ:
                if s is not None:
                    f.blocks[s].preds.append(B.id)
    done[f.id] = names
    return names


class _Skip(Exception):
    pass


def _splice(f, c, g, tag):
    args = f.args(c)
    g.defs_of_var('')
    subst, decls = {}, []
    for p, a in zip(g.params, args):
        t = (g.types[p['t']] or '')
        byref = t.rstrip().endswith('&')
        if (not g._defs.get(p['ref']) and _pure(f, a)) or byref:
            subst[p['ref']] = a
        else:
            decls.append((p, a))
    own = g._n_own
    off = len(f.nodes)
    nmap = {j: off + j for j in range(own)}

    def ren(r):
        if r and r.startswith(('v:', 'p:', 'sv:')) and r not in subst:
            return r + '#' + tag
        return r
    for j in range(own):
        m = g.nodes[j]
        cpy = dict(m)
        cpy['i'] = nmap[j]
        cpy['inl'] = c if False else None
        cpy.pop('inl', None)
        cpy['ch'] = [nmap[x] for x in m['ch'] if x < own]
        for key in ID_KEYS:
            if key in m and isinstance(m[key], int) and m[key] >= 0:
                cpy[key] = nmap[m[key]] if m[key] < own else -1
        if 'handlers' in m:
            cpy['handlers'] = [nmap[x] for x in m['handlers'] if x < own]
        if 'decls' in m:
            nd = []
            for d in m['decls']:
                d2 = dict(d)
                d2['ref'] = ren(d['ref'])
                if d.get('init') is not None:
                    d2['init'] = nmap[d['init']]
                nd.append(d2)
            cpy['decls'] = nd
        if m['k'] == 'ReturnStmt':
            cpy['k'] = 'InlReturnStmt'
        if m['k'] in ('DeclRefExpr',) and m.get('ref') in subst:
            cpy = {'k': 'ParenExpr', 'l': m['l'], 'c': m.get('c', 0), 'ch': [subst[m['ref']]], 'i': nmap[j], 't': m.get('t'), 'psub': m['ref']}
        elif 'ref' in m:
            cpy['ref'] = ren(m['ref'])
        if 'cvarref' in m:
            cpy['cvarref'] = ren(m['cvarref'])
        cpy['from'] = g.short
        f.nodes.append(cpy)
    for j in range(own):
        for x in f.nodes[nmap[j]]['ch']:
            if x >= off:
                f.parent[x] = nmap[j]
    root = nmap[g.body]
    f.nodes[c].setdefault('inl', []).append(root)
    f.parent[root] = c
    # synthetic declarations for parameters that are not substituted
    decl_elems = []
    for (p, a) in decls:
        i = len(f.nodes)
        f.nodes.append({'k': 'DeclStmt', 'l': f.nodes[c]['l'], 'c': 0, 'ch': [], 'i': i, 'syn': 1,
                        'decls': [{'ref': ren(p['ref']), 'name': p.get('name', ''), 't': p['t'], 'init': a}]})
        f.parent[i] = c
        decl_elems.append({'n': i})
    # ---- CFG
    bid, idx = f.pos[c]
    B = f.blocks[bid]
    if not (idx < len(B.elems) and B.elems[idx].get('n') == c):
        raise _Skip()
    nxt = max(f.blocks) + 1
    bmap = {}
    for ob in g.blocks:
        if ob == g.exit:
            continue
        bmap[ob] = nxt
        nxt += 1
    post = Block()
    post.id = nxt
    post.elems = B.elems[idx:]
    post.term, post.tcond, post.label, post.tdbranch = B.term, B.tcond, None, B.tdbranch
    post.succ, post.usucc, post.preds = list(B.succ), list(getattr(B, 'usucc', [])), []
    f.blocks[post.id] = post
    B.elems = B.elems[:idx] + decl_elems
    B.term, B.tcond, B.tdbranch = None, None, 0
    B.succ, B.usucc = [bmap[g.entry]], []
    for e_i, e in enumerate(decl_elems):
        f.pos[e['n']] = (B.id, idx + e_i)
    for e_i, e in enumerate(post.elems):
        if 'n' in e and f.pos.get(e['n']) == (bid, idx + e_i):
            f.pos[e['n']] = (post.id, e_i)
    if post.term is not None and f.pos.get(post.term, (None,))[0] == bid:
        f.pos[post.term] = (post.id, len(post.elems))
    ret_blocks = {}
    for ob, nb in bmap.items():
        G = g.blocks[ob]
        N = Block()
        N.id = nb
        N.elems = []
        for e in G.elems:
            e2 = dict(e)
            if 'n' in e:
                if e['n'] >= own:
                    continue
                e2['n'] = nmap[e['n']]
            if 'dtor' in e:
                e2['dtor'] = ren(e['dtor'])
            if 'tmpdtor' in e:
                if e['tmpdtor'] >= own:
                    continue
                e2['tmpdtor'] = nmap[e['tmpdtor']]
            N.elems.append(e2)
        N.term = nmap[G.term] if G.term is not None and G.term < own else None
        N.tcond = nmap[G.tcond] if G.tcond is not None and G.tcond < own else None
        N.label = nmap[G.label] if G.label is not None and G.label < own else None
        N.tdbranch = G.tdbranch
        N.succ = [None if s is None else (post.id if s == g.exit else bmap[s]) for s in G.succ]
        N.usucc, N.preds = [], []
        f.blocks[nb] = N
        for e_i, e in enumerate(N.elems):
            if 'n' in e:
                f.pos.setdefault(e['n'], (nb, e_i))
                m = f.nodes[e['n']]
                if m['k'] == 'InlReturnStmt' and post.id in N.succ:
                    v = m['ch'][0] if m['ch'] else None
                    cv = f.nodes[f.strip(v)].get('cv', f.nodes[v].get('cv')) if v is not None else None
                    ret_blocks[nb] = cv
        if N.term is not None and f.nodes[N.term]['k'] in ('BreakStmt', 'ContinueStmt'):
            f.pos.setdefault(N.term, (nb, len(N.elems)))
    # correlate constant returns with a branch taken directly on the call's value
    if post.tcond is not None and post.term is not None and f.nodes[post.term]['k'] not in ('SwitchStmt',):
        t, inv = f.strip(post.tcond), False
        while f.nodes[t]['k'] == 'UnaryOperator' and f.nodes[t].get('op') == '!':
            t, inv = f.strip(f.nodes[t]['ch'][0]), not inv
        if t == c and not post.tdbranch:
            if not hasattr(f, '_retjoin'):
                f._retjoin = {}
            m = {}
            for rb, cv in ret_blocks.items():
                if cv is not None:
                    m[rb] = 'T' if (bool(cv) != inv) else 'F'
            if m:
                f._retjoin[post.id] = m
