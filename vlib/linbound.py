"""E4 `linbound`: forward symbolic propagation of linear constraints along CFG paths and
proof of access obligations (offset + length <= size, index < size, value in range) by
Fourier-Motzkin.  Loops are cut at their head after havocking everything the loop assigns;
small callees of the same class / file are inlined; calls havoc what they may write.
Pointers are linear terms over a base symbol '@obj' so that p - q and p < e stay linear."""
import collections
from fractions import Fraction
from .model import CALL_KINDS, strip_targs, TRANSPARENT
from .build import AnalysisBroken
from .lin import Lin, ge, eq, implies, infeasible
from . import q

UNSIGNED = ('unsigned', 'size_t', 'uint', 'bool')
TYPE_SIZE = {'long double': 16, 'char': 1, 'signed char': 1, 'unsigned char': 1, 'bool': 1, 'short': 2, 'unsigned short': 2, 'int': 4, 'unsigned int': 4,
             'long': 8, 'unsigned long': 8, 'long long': 8, 'unsigned long long': 8, 'float': 4, 'double': 8, 'wchar_t': 4}
TYPE_MAX = {'unsigned char': 255, 'unsigned short': 65535, 'unsigned int': 4294967295, 'bool': 1, 'char': 127, 'signed char': 127, 'short': 32767, 'int': 2147483647}
TYPE_MIN = {'char': -128, 'signed char': -128, 'short': -32768, 'int': -2147483648}
PTR_METHODS = {'c_str', 'data', 'begin'}
END_METHODS = {'end'}
SIZE_METHODS = {'size', 'length'}
MAX_PATHS = 4000


def is_unsigned(t):
    if not t:
        return False
    t = t.replace('const ', '').strip()
    return t.startswith('unsigned') or t in ('bool',)


def g_is_implicit_copy(P, n):
    """assignment operator without a body in the analysed program (implicit member-wise copy)"""
    return (n.get('cn') or '').endswith('::operator=') and P.fns.get(n.get('callee')) is None and not (n.get('cn') or '').startswith('std::')


class State(object):
    __slots__ = ('env', 'cons', 'val', 'notes')

    def __init__(self, env=None, cons=None, val=None):
        self.env = dict(env or {})
        self.cons = list(cons or [])
        self.val = dict(val or {})
        self.notes = []

    def clone(self):
        s = State(self.env, self.cons, self.val)
        return s


class Obligation(object):
    def __init__(self, fn, node, kind, desc, goal, proved, cons, chain=()):
        self.fn, self.node, self.kind, self.desc, self.goal, self.proved, self.cons, self.chain = fn, node, kind, desc, goal, proved, cons, chain


class Engine(object):
    def __init__(self, P, inline_depth=2, assume=None, invariants=None, opaque_calls=()):
        self.P = P
        self.depth = inline_depth
        self.fresh = 0
        self.obligations = []
        self.paths = 0
        self.assume = assume or {}          # bname -> callable(engine, fn, state) adding entry constraints
        self.opaque_calls = set(opaque_calls)
        self.unsupported = []
        self.site_hooks = []        # callables (engine, fn, st, node, chain) run at every call node before it is interpreted
        self.range_sinks = {}       # callee bname -> (pointer arg index, length arg index): [p, p+n) must lie inside p's object

    # ---------------------------------------------------------------- atoms
    def newatom(self, hint, t=None, st=None):
        self.fresh += 1
        a = '%s#%d' % (hint, self.fresh)
        if st is not None and t is not None:
            self.type_facts(st, Lin.atom(a), t)
        return a

    def type_facts(self, st, e, t):
        t = (t or '').replace('const ', '').strip().rstrip('&').strip()
        if is_unsigned(t):
            st.cons.append(ge(e))
        if t in TYPE_MAX:
            st.cons.append(ge(Lin.const(TYPE_MAX[t]) - e))
        if t in TYPE_MIN:
            st.cons.append(ge(e - Lin.const(TYPE_MIN[t])))

    def path_atom(self, fn, i):
        """canonical atom for an lvalue path (variable, this->field, a.b) or None"""
        i = fn.strip(i)
        n = fn.N(i)
        k = n['k']
        if k == 'DeclRefExpr':
            return getattr(self, '_alias', {}).get(n['ref'], n['ref'])      # reference parameter of an inlined callee stands for the caller's object
        if k == 'CXXThisExpr':
            return 'this'
        if k == 'MemberExpr' and n['ch'] and not n.get('ref', '').startswith('fn:'):
            b = self.path_atom(fn, n['ch'][0])
            if b is None:
                return None
            return b + '.' + strip_targs(n['ref'])
        if k == 'UnaryOperator' and n.get('op') == '*':
            b = self.path_atom(fn, n['ch'][0])
            return ('*' + b) if b else None
        if k == 'CXXOperatorCallExpr' and n.get('op') in ('*', '->') and len(n['ch']) == 2:
            b = self.path_atom(fn, n['ch'][1])
            return ('*' + b) if b else None
        if k in ('CStyleCastExpr', 'CXXStaticCastExpr', 'CXXReinterpretCastExpr', 'CXXConstCastExpr'):
            return self.path_atom(fn, n['ch'][0])
        return None

    # ---------------------------------------------------------------- expression values
    def value(self, fn, st, i):
        """Lin value of expression node i in state st"""
        if i in st.val and not isinstance(st.val[i], tuple):
            return st.val[i]
        n0 = fn.N(i)
        if 'cv' in n0 and n0['k'] not in ('DeclRefExpr', 'MemberExpr'):
            return Lin.const(n0['cv'])
        i = fn.strip(i)
        if i in st.val and not isinstance(st.val[i], tuple):
            return st.val[i]
        n = fn.N(i)
        k = n['k']
        t = fn.type_of(n)
        if 'cv' in n and k not in ('DeclRefExpr', 'MemberExpr'):
            return Lin.const(n['cv'])
        if k in ('CStyleCastExpr', 'CXXStaticCastExpr', 'CXXFunctionalCastExpr', 'CXXReinterpretCastExpr', 'CXXConstCastExpr'):
            v = self.value(fn, st, n['ch'][0])
            return self.narrow(fn, st, v, fn.type_of(fn.N(fn.strip(n['ch'][0]))), t, i)
        if k == 'ImplicitCastExpr':
            return self.value(fn, st, n['ch'][0])
        if k in ('DeclRefExpr', 'MemberExpr'):
            a = self.path_atom(fn, i)
            if a is None:
                return Lin.atom(self.newatom('opaque', t, st))
            if a in st.env:
                return st.env[a]
            if 'cv' in n:
                return Lin.const(n['cv'])
            self._first_use(st, a, t)
            return st.env[a]
        if k == 'BinaryOperator':
            op = n.get('op')
            if op in ('+', '-'):
                l, r = self.value(fn, st, n['ch'][0]), self.value(fn, st, n['ch'][1])
                res = l + r if op == '+' else l - r
                if op == '-' and is_unsigned(t) and not self._has_base(l):
                    if not implies(st.cons, ge(res)):
                        a = self.newatom('wrap', t, st)
                        st.notes.append('unsigned subtraction at %s may wrap: treated as opaque' % fn.loc(i))
                        return Lin.atom(a)
                return res
            if op == '*':
                l, r = self.value(fn, st, n['ch'][0]), self.value(fn, st, n['ch'][1])
                if l.is_const():
                    return r.scale(l.c)
                if r.is_const():
                    return l.scale(r.c)
            if op in ('/', '%', '&', '>>'):
                l, r = self.value(fn, st, n['ch'][0]), self.value(fn, st, n['ch'][1])
                a = Lin.atom(self.newatom('arith', t, st))
                if r.is_const() and r.c > 0:
                    if op == '%':
                        st.cons.append(ge(a))
                        st.cons.append(ge(Lin.const(r.c - 1) - a))
                        return a
                    if op == '&':
                        st.cons.append(ge(a))
                        st.cons.append(ge(Lin.const(r.c) - a))
                        if implies(st.cons, ge(l)):
                            st.cons.append(ge(l - a))
                        return a
                    if op == '/' and implies(st.cons, ge(l)):
                        # a = floor(l / c):  c*a <= l <= c*a + c - 1
                        st.cons.append(ge(a))
                        st.cons.append(ge(l - a.scale(r.c)))
                        st.cons.append(ge(a.scale(r.c) + Lin.const(r.c - 1) - l))
                        return a
                    if op == '>>' and implies(st.cons, ge(l)):
                        c = 2 ** int(r.c)
                        st.cons.append(ge(a))
                        st.cons.append(ge(l - a.scale(c)))
                        st.cons.append(ge(a.scale(c) + Lin.const(c - 1) - l))
                        return a
                if op == '&' and l.is_const() and l.c > 0:
                    st.cons.append(ge(a))
                    st.cons.append(ge(Lin.const(l.c) - a))
                    return a
                return a
            if op == ',':
                return self.value(fn, st, n['ch'][1])
            if op in ('=',):
                return self.value(fn, st, n['ch'][1])
        if k == 'UnaryOperator':
            op = n.get('op')
            if op == '-':
                return -self.value(fn, st, n['ch'][0])
            if op == '+':
                return self.value(fn, st, n['ch'][0])
            if op == '&':
                return self.address(fn, st, n['ch'][0])
            if op == '*':
                a = self.path_atom(fn, i)
                if a and a in st.env:
                    return st.env[a]
                return Lin.atom(self.newatom('deref', t, st))
        if k == 'CXXMemberCallExpr':
            sh = q.short_of(n.get('cn'))
            o = fn.obj(i)
            if o is not None and not fn.args(i):
                oa = self.path_atom(fn, o)
                if oa is not None:
                    if sh in SIZE_METHODS:
                        return self.size_of(st, oa)
                    if sh in PTR_METHODS:
                        return Lin.atom('@' + oa)
                    if sh in END_METHODS:
                        return Lin.atom('@' + oa) + self.size_of(st, oa)
                    if sh in ('front',):
                        pass
                    key = '%s.%s()' % (oa, sh)
                    if key in st.env:
                        return st.env[key]
                    self._first_use(st, key, t)
                    return st.env[key]
        if k == 'CXXOperatorCallExpr' and n.get('op') in ('+', '-') and len(n['ch']) == 3:
            l, r = self.value(fn, st, n['ch'][1]), self.value(fn, st, n['ch'][2])
            return l + r if n['op'] == '+' else l - r
        if k == 'ConditionalOperator':
            pass
        if k == 'ArraySubscriptExpr' or (k == 'CXXOperatorCallExpr' and n.get('op') == '[]'):
            a = self.path_atom(fn, i)
        return Lin.atom(self.newatom('opaque:%s' % k, t, st))

    def _first_use(self, st, a, t):
        st.env[a] = Lin.atom(a)
        self.type_facts(st, st.env[a], t)
        if '.f:' in a:
            if not hasattr(self, '_bits'):
                self._bits = {}
                for r in self.P.records.values():
                    for f in r['fields']:
                        if f.get('bits'):
                            self._bits[strip_targs(f['ref'])] = f['bits']
            b = self._bits.get('f:' + a.rsplit('.f:', 1)[1])
            if b:
                st.cons.append(ge(st.env[a]))
                st.cons.append(ge(Lin.const(2 ** b - 1) - st.env[a]))

    def size_of(self, st, oa):
        key = oa + '.size()'
        if key not in st.env:
            st.env[key] = Lin.atom(key)
            st.cons.append(ge(st.env[key]))
        return st.env[key]

    def _has_base(self, e):
        return any(a.startswith('@') for a in e.t)

    def narrow(self, fn, st, v, tfrom, tto, node):
        tto = (tto or '').replace('const ', '').strip()
        if tto in TYPE_MAX and not v.is_const():
            lo = Lin.const(TYPE_MIN.get(tto, 0))
            hi = Lin.const(TYPE_MAX[tto])
            if implies(st.cons, ge(v - lo)) and implies(st.cons, ge(hi - v)):
                return v
            a = Lin.atom(self.newatom('narrow', tto, st))
            if implies(st.cons, ge(v)):
                st.cons.append(ge(v - a))       # truncation / wrap of a non-negative value never increases it
                st.cons.append(ge(a - lo)) if TYPE_MIN.get(tto, 0) >= 0 else None
            return a
        return v

    def address(self, fn, st, i):
        """&lvalue as a pointer term"""
        i = fn.strip(i)
        n = fn.N(i)
        k = n['k']
        if k == 'CXXOperatorCallExpr' and n.get('op') == '[]' and len(n['ch']) == 3:
            oa = self.path_atom(fn, n['ch'][1])
            if oa:
                return Lin.atom('@' + oa) + self.value(fn, st, n['ch'][2])
        if k == 'ArraySubscriptExpr':
            b = self.value(fn, st, n['ch'][0])
            return b + self.value(fn, st, n['ch'][1])
        if k == 'CXXMemberCallExpr' and q.short_of(n.get('cn')) in ('front',):
            oa = self.path_atom(fn, fn.obj(i)) if fn.obj(i) is not None else None
            if oa:
                return Lin.atom('@' + oa)
        if k == 'CXXMemberCallExpr' and q.short_of(n.get('cn')) in ('back',):
            oa = self.path_atom(fn, fn.obj(i)) if fn.obj(i) is not None else None
            if oa:
                return Lin.atom('@' + oa) + self.size_of(st, oa) - Lin.const(1)
        a = self.path_atom(fn, i)
        if a:
            return Lin.atom('@' + a)
        return Lin.atom(self.newatom('addr'))

    # ---------------------------------------------------------------- obligations
    def base_of(self, v):
        bases = [a for a in v.t if a.startswith('@')]
        if len(bases) == 1 and v.t[bases[0]] == 1:
            return bases[0]
        return None

    def oblige_range(self, fn, st, node, kind, ptrv, length, what, chain, elem_size=1):
        """[ptr, ptr+length) inside its base object"""
        b = self.base_of(ptrv)
        if b is None:
            return None
        obj = b[1:]
        off = ptrv - Lin.atom(b)
        size = self.object_size(fn, st, obj, node)
        if size is None:
            return None
        goal_hi = ge(size - off - length)
        goal_lo = ge(off)
        goal_n = ge(length)
        ok = implies(st.cons, goal_hi) and implies(st.cons, goal_lo) and implies(st.cons, goal_n)
        self.obligations.append(Obligation(fn, node, kind, '%s: 0 <= %s and %s + %s <= size(%s)=%s' % (what, off, off, length, obj, size), (goal_lo, goal_n, goal_hi), ok,
                                           list(st.cons), chain))
        return ok

    def oblige(self, fn, st, node, kind, desc, goal, chain):
        ok = implies(st.cons, goal)
        self.obligations.append(Obligation(fn, node, kind, desc, (goal,), ok, list(st.cons), chain))
        return ok

    def object_size(self, fn, st, obj, node):
        key = obj + '.size()'
        if key in st.env:
            sz = st.env[key]
            bt0 = (self.obj_types.get(obj) or '').replace('const ', '').strip()
            if getattr(self, 'byte_sinks', False) and bt0.startswith('std::vector<'):
                el = bt0[len('std::vector<'):].split(',')[0].rstrip('>').strip()
                if el not in TYPE_SIZE:
                    return None
                sz = sz.scale(TYPE_SIZE[el])
            return sz
        t = self.obj_types.get(obj)
        if t:
            bt = t.replace('const ', '').strip()
            if bt in TYPE_SIZE:
                return Lin.const(TYPE_SIZE[bt])
            if bt.endswith(']') and '[' in bt:
                try:
                    cnt = int(bt[bt.rindex('[') + 1:-1])
                    el = bt[:bt.rindex('[')].strip()
                    return Lin.const(cnt * TYPE_SIZE.get(el, 1))
                except ValueError:
                    return None
            if any(x in bt for x in ('std::basic_string', 'std::vector')):
                sz = self.size_of(st, obj)
                if getattr(self, 'byte_sinks', False) and bt.startswith('std::vector<'):
                    # a byte-count sink (void * + n) into a vector<T>: the object is size()*sizeof(T) bytes long
                    el = bt[len('std::vector<'):].split(',')[0].rstrip('>').strip()
                    if el not in TYPE_SIZE:
                        return None
                    sz = sz.scale(TYPE_SIZE[el])
                return sz
            if bt in self.struct_sizes:
                return Lin.const(self.struct_sizes[bt])
            return None
        return None

    # ---------------------------------------------------------------- execution
    def analyse(self, fn, entry=None):
        """explore fn; returns list of (state, retval) for normal exits"""
        self.obj_types = getattr(self, 'obj_types', {})
        self.struct_sizes = getattr(self, 'struct_sizes', {})
        st = State()
        self._register_types(fn)
        if entry:
            entry(self, fn, st)
        a = self.assume.get(fn.bname)
        if a:
            a(self, fn, st)
        return self._run(fn, st, (fn,))

    def _register_types(self, fn):
        for p in fn.params:
            self.obj_types[p['ref']] = fn.types[p['t']].rstrip('&').strip()
        for i in fn.all_nodes():
            n = fn.N(i)
            if n['k'] == 'DeclStmt':
                for d in n['decls']:
                    self.obj_types[d['ref']] = fn.types[d['t']]
        if fn.record:
            for r in [self.P.records.get(fn.record)]:
                if r:
                    for f in self.P.fields_of(strip_targs(r['name'])) if strip_targs(r['name']) in self.P.brecords else r['fields']:
                        self.obj_types['this.' + strip_targs(f['ref'])] = f['type']

    def _loop_info(self, fn):
        if hasattr(fn, '_loopinfo'):
            return fn._loopinfo
        heads = {}
        color = {}
        stack = [(fn.entry, iter([s for (s, _) in fn.succ_edges(fn.entry)]))]
        color[fn.entry] = 1
        onstack = [fn.entry]
        back = []
        while stack:
            b, it = stack[-1]
            adv = False
            for s in it:
                if color.get(s, 0) == 0:
                    color[s] = 1
                    stack.append((s, iter([x for (x, _) in fn.succ_edges(s)])))
                    adv = True
                    break
                elif color[s] == 1:
                    back.append((b, s))
            if not adv:
                color[b] = 2
                stack.pop()
        for (src, head) in back:
            body = {head, src}
            work = [src]
            while work:
                x = work.pop()
                if x == head:
                    continue
                for pr in fn.blocks[x].preds:
                    if pr not in body:
                        body.add(pr)
                        work.append(pr)
            heads.setdefault(head, set()).update(body)
        info = {}
        for h, body in heads.items():
            atoms, prefixes = set(), set()
            nonmono = set()
            nonmonodown = set()
            for b in body:
                for e in fn.blocks[b].elems:
                    if 'n' in e:
                        a1, p1 = set(), set()
                        self._written(fn, e['n'], a1, p1)
                        atoms |= a1
                        prefixes |= p1
                        n = fn.N(e['n'])
                        up = False
                        if n['k'] == 'UnaryOperator' and n.get('op') == '++':
                            up = True
                        elif n['k'] == 'CompoundAssignOperator' and n.get('op') == '+=':
                            rt = fn.type_of(fn.N(fn.strip(n['ch'][1])))
                            rv = fn.const_value(n['ch'][1])
                            up = (rv is not None and rv >= 0) or is_unsigned(rt)
                        if not up:
                            nonmono |= a1
                        nonmono |= p1
                        down = False
                        if n['k'] == 'UnaryOperator' and n.get('op') == '--':
                            down = True
                        elif n['k'] == 'CompoundAssignOperator' and n.get('op') == '-=':
                            rt = fn.type_of(fn.N(fn.strip(n['ch'][1])))
                            rv = fn.const_value(n['ch'][1])
                            down = (rv is not None and rv >= 0) or is_unsigned(rt)
                        if not down:
                            nonmonodown |= a1
                        nonmonodown |= p1
            info[h] = (body, atoms, prefixes, atoms - nonmono, atoms - nonmonodown)
        fn._loopinfo = info
        return info

    def _written(self, fn, i, atoms, prefixes):
        n = fn.N(i)
        k = n['k']
        if k in ('BinaryOperator', 'CompoundAssignOperator') and n.get('op') in q.ASSIGN_OPS:
            a = self.path_atom(fn, n['ch'][0])
            if a:
                atoms.add(a)
        elif k == 'UnaryOperator' and n.get('op') in ('++', '--'):
            a = self.path_atom(fn, n['ch'][0])
            if a:
                atoms.add(a)
        elif k == 'CXXOperatorCallExpr' and n.get('op') in q.ASSIGN_OPS + ('++', '--') and len(n['ch']) > 1:
            a = self.path_atom(fn, n['ch'][1])
            if a:
                atoms.add(a)
                prefixes.add(a)
        elif k == 'DeclStmt':
            for d in n['decls']:
                atoms.add(d['ref'])
                prefixes.add(d['ref'])
        elif k in CALL_KINDS:
            if k == 'CXXMemberCallExpr':
                o = fn.obj(i)
                m = fn.N(fn.strip(n['ch'][0]))
                if o is not None and not m.get('ref', '').endswith(' const') and q.short_of(n.get('cn')) not in q.NONMUTATING:
                    a = self.path_atom(fn, o)
                    if a:
                        g = self.P.fns.get(n.get('callee'))
                        if a == 'this' and g is not None and g is not fn and getattr(self, '_wdepth', 0) < 3:
                            # same object: the callee's own write set (its `this` is ours)
                            self._wdepth = getattr(self, '_wdepth', 0) + 1
                            try:
                                for j in g.all_nodes():
                                    a2, p2 = set(), set()
                                    self._written(g, j, a2, p2)
                                    atoms |= set(x for x in a2 if x.startswith('this'))
                                    prefixes |= set(x for x in p2 if x.startswith('this'))
                            finally:
                                self._wdepth -= 1
                        elif a == 'this' and (n.get('cn') or '').startswith(('std::', 'booster::')):
                            pass       # library base-class helpers (shared_from_this ...) do not touch the derived object's fields
                        else:
                            prefixes.add(a)
                            if a == 'this':
                                prefixes.add('this.')
            ov = n.get('ov') or []
            args = fn.args(i)
            if k == 'CXXOperatorCallExpr' and n.get('rec'):
                args = args[1:]
            for a_, pt in zip(args, ov):
                pt = pt.strip()
                if (pt.endswith('&') or pt.endswith('*')) and not pt.startswith('const '):
                    s = fn.strip(a_)
                    if fn.N(s)['k'] == 'UnaryOperator' and fn.N(s).get('op') == '&':
                        s = fn.strip(fn.N(s)['ch'][0])
                    a = self.path_atom(fn, s)
                    if a:
                        atoms.add(a)
                        prefixes.add(a)

    def havoc(self, st, atoms=(), prefixes=(), mono=(), monodown=()):
        for k in monodown:
            # only ever decremented inside the loop (each decrement is separately proved not to wrap):
            # the value at the head is the entry value minus something >= 0
            if k in st.env and k not in mono:
                d = Lin.atom(self.newatom('shrunk:' + k.split('::')[-1].split('@')[0]))
                st.cons.append(ge(d))
                st.env[k] = st.env[k] - d
                t = self.obj_types.get(k)
                if t:
                    self.type_facts(st, st.env[k], t)
                self._monodown_active = getattr(self, '_monodown_active', set()) | {k}
        atoms = set(atoms) - set(m for m in monodown if m in st.env and m not in mono)
        for k in mono:
            # only ever incremented inside the loop: the value at the head is the entry value plus something >= 0
            if k in st.env:
                d = Lin.atom(self.newatom('grown:' + k.split('::')[-1].split('@')[0]))
                st.cons.append(ge(d))
                st.env[k] = st.env[k] + d
        atoms = set(atoms) - set(m for m in mono if m in st.env)
        for k in list(st.env.keys()):
            if k in atoms or any(k == p or k.startswith(p + '.') or k.startswith(p + '[') or (p.endswith('.') and k.startswith(p)) for p in prefixes):
                t = self.obj_types.get(k)
                a = Lin.atom(self.newatom('havoc:' + k.split('::')[-1]))
                st.env[k] = a
                if t:
                    self.type_facts(st, a, t)
                if k.endswith('.size()'):
                    st.cons.append(ge(a))
        for k in atoms:
            if k not in st.env:
                t = self.obj_types.get(k)
                a = Lin.atom(self.newatom('havoc:' + k.split('::')[-1]))
                st.env[k] = a
                if t:
                    self.type_facts(st, a, t)
        for p in prefixes:
            k = p + '.size()'
            if k not in st.env and not p.endswith('.'):
                pass

    def _run(self, fn, st0, chain):
        loops = self._loop_info(fn)
        results = []
        work = [(fn.entry, 0, st0, frozenset())]
        while work:
            b, start, st, seen = work.pop()
            self.paths += 1
            if self.paths > MAX_PATHS:
                raise AnalysisBroken('linbound: path budget exceeded in %s' % fn.id)
            if start == 0 and b in loops:
                if b in seen:
                    if getattr(self, 'backedge_hook', None):
                        self.backedge_hook(self, fn, b, st)
                    continue       # back edge: the head was analysed with everything the loop writes havocked
                body, atoms, prefixes, mono, monodown = loops[b]
                self.havoc(st, atoms, prefixes, mono, monodown)
                seen = seen | {b}
                if getattr(self, 'loophead_hook', None):
                    self.loophead_hook(self, fn, b, st)
            ended = False
            elems = fn.blocks[b].elems
            for idx in range(start, len(elems)):
                e = elems[idx]
                if 'n' not in e:
                    continue
                r = self.step(fn, st, e['n'], chain)
                if r == 'end':
                    ended = True
                    break
                if isinstance(r, list):
                    # an inlined call produced several continuation states: fork after this element
                    for (st2, _) in r[1:]:
                        work.append((b, idx + 1, st2, seen))
                    st = r[0][0]
            if ended or b == fn.exit:
                continue
            for (s, lab, tag) in fn.state_succ(b, None):
                for st2 in self.branch(fn, st, b, lab):
                    if s == fn.exit:
                        results.append((st2, st2.val.get('ret')))
                    else:
                        work.append((s, 0, st2, seen))
        return results

    def branch(self, fn, st, b, lab):
        """states after taking edge `lab` out of block b (DNF split of the condition)"""
        B = fn.blocks[b]
        lc = fn.leaf_cond(B)
        if lc is None or lab not in (True, False):
            if lc is not None and lc[1] and isinstance(lab, tuple):
                st2 = st.clone()
                v = self.value(fn, st2, lc[0])
                if lab[1] is not None:
                    st2.cons.append(eq(v - Lin.const(lab[1])))
                return [st2]
            return [st.clone()]
        out = []
        for conj in self.dnf(fn, st, lc[0], lab):
            st2 = st.clone()
            bad = False
            for c in conj:
                st2.cons.append(c)
            if infeasible(st2.cons):
                continue
            out.append(st2)
        return out

    def dnf(self, fn, st, node, pol):
        i = fn.strip(node)
        if i in st.val and isinstance(st.val[i], tuple) and st.val[i][0] == 'cond':
            # an inlined predicate call: its return expression was recorded as a condition on callee values
            return st.val[i][1] if pol else st.val[i][2]
        n = fn.N(i)
        if n['k'] == 'UnaryOperator' and n.get('op') == '!':
            return self.dnf(fn, st, n['ch'][0], not pol)
        if n['k'] == 'BinaryOperator' and n.get('op') in ('&&', '||'):
            conj = (n['op'] == '&&') == pol
            A, B = self.dnf(fn, st, n['ch'][0], pol), self.dnf(fn, st, n['ch'][1], pol)
            if conj:
                return [x + y for x in A for y in B]
            return A + B
        if n['k'] == 'BinaryOperator' and n.get('op') in ('<', '<=', '>', '>=', '==', '!='):
            l, r = self.value(fn, st, n['ch'][0]), self.value(fn, st, n['ch'][1])
            op = n['op']
            if not pol:
                op = {'<': '>=', '<=': '>', '>': '<=', '>=': '<', '==': '!=', '!=': '=='}[op]
            d = l - r
            if op == '<':
                return [[ge((-d) - Lin.const(1))]]
            if op == '<=':
                return [[ge(-d)]]
            if op == '>':
                return [[ge(d - Lin.const(1))]]
            if op == '>=':
                return [[ge(d)]]
            if op == '==':
                return [[eq(d)]]
            return [[ge(d - Lin.const(1))], [ge((-d) - Lin.const(1))]]
        # plain value tested for zero / non-zero
        t = fn.type_of(n)
        if t in ('bool',) or (t or '').replace('const ', '') in TYPE_SIZE:
            v = self.value(fn, st, i)
            if not v.is_const() and any(a.startswith(('opaque', 'arith')) for a in v.t):
                return [[]]
            if pol:
                if is_unsigned(t) or t == 'bool':
                    return [[ge(v - Lin.const(1))]]
                return [[ge(v - Lin.const(1))], [ge((-v) - Lin.const(1))]]
            return [[eq(v)]]
        return [[]]

    # one CFG element
    def step(self, fn, st, i, chain):
        n = fn.N(i)
        k = n['k']
        if k == 'DeclStmt':
            for d in n['decls']:
                t = fn.types[d['t']]
                init = d.get('init')
                if init is None:
                    a = Lin.atom(self.newatom('uninit:' + d['name']))
                    st.env[d['ref']] = a
                    continue
                c = fn.strip(init)
                cn = fn.N(c)
                if cn['k'] in ('CXXConstructExpr', 'CXXTemporaryObjectExpr') and any(x in t for x in ('std::vector', 'std::basic_string')):
                    args = fn.args(c)
                    sizekey = d['ref'] + '.size()'
                    if not args:
                        st.env[sizekey] = Lin.const(0)
                    elif 'std::vector' in t and len(args) >= 1 and fn.type_of(fn.N(fn.strip(args[0]))) and 'long' in (fn.type_of(fn.N(args[0])) or fn.type_of(fn.N(fn.strip(args[0]))) or ''):
                        st.env[sizekey] = self.value(fn, st, args[0])
                    elif 'std::basic_string' in t and len(args) >= 2 and (n.get('ov') or cn.get('ov') or [''])[0].startswith('const char *'):
                        st.env[sizekey] = self.value(fn, st, args[1])
                    else:
                        a = Lin.atom(self.newatom('size:' + d['name']))
                        st.cons.append(ge(a))
                        st.env[sizekey] = a
                    continue
                if d.get('isref'):
                    # a reference aliases its initialiser: resolve uses through the alias
                    pa = self.path_atom(fn, init)
                    if pa:
                        st.env['alias:' + d['ref']] = pa
                v = self.value(fn, st, init)
                v = self.narrow(fn, st, v, None, t, i)
                st.env[d['ref']] = v
            return None
        if k in ('BinaryOperator', 'CompoundAssignOperator') and n.get('op') in q.ASSIGN_OPS:
            a = self.path_atom(fn, n['ch'][0])
            t = fn.type_of(fn.N(fn.strip(n['ch'][0])))
            if n['op'] == '=':
                v = self.value(fn, st, n['ch'][1])
            else:
                old = self.value(fn, st, n['ch'][0])
                r = self.value(fn, st, n['ch'][1])
                if n['op'] == '+=':
                    v = old + r
                elif n['op'] == '-=':
                    v = old - r
                    if is_unsigned(t) and not self._has_base(old) and not implies(st.cons, ge(v)):
                        if a in getattr(self, '_monodown_active', set()):
                            self.oblige(fn, st, i, 'no-wrap', 'loop invariant: %s -= ... does not wrap below zero' % a.split('::')[-1], ge(v), chain)
                        v = Lin.atom(self.newatom('wrap', t, st))
                elif n['op'] == '*=' and r.is_const():
                    v = old.scale(r.c)
                else:
                    v = Lin.atom(self.newatom('arith', t, st))
            self.store_check(fn, st, i, n['ch'][0], v, t, chain)
            v = self.narrow(fn, st, v, None, t, i)
            if a:
                st.env[a] = v
                if a.startswith('*') or '[' in a:
                    pass
            st.val[i] = v
            return None
        if k == 'UnaryOperator' and n.get('op') in ('++', '--'):
            a = self.path_atom(fn, n['ch'][0])
            old = self.value(fn, st, n['ch'][0])
            new = old + Lin.const(1 if n['op'] == '++' else -1)
            if a:
                st.env[a] = new
            st.val[i] = old if n.get('post') else new
            return None
        if k == 'UnaryOperator' and n.get('op') == '*':
            # dereference of a pointer term: 1 byte (element) must be inside
            pv = self.value(fn, st, n['ch'][0])
            if self.base_of(pv):
                self.oblige_range(fn, st, i, 'deref', pv, Lin.const(1), '*p', chain)
            return None
        if k == 'ReturnStmt':
            if n['ch']:
                st.val['ret'] = self.value(fn, st, n['ch'][0])
                st.val['retnode'] = n['ch'][0]
            return None
        if k == 'CXXThrowExpr':
            return 'end'
        if k in CALL_KINDS:
            return self.call(fn, st, i, chain)
        if k == 'ArraySubscriptExpr':
            pv = self.value(fn, st, n['ch'][0])
            if self.base_of(pv):
                idx = self.value(fn, st, n['ch'][1])
                self.oblige_range(fn, st, i, 'index', pv + idx, Lin.const(1), 'p[i]', chain)
        return None

    def store_check(self, fn, st, i, lhs, v, t, chain):
        """narrowing store into a small unsigned record field: the value must fit"""
        ln = fn.N(fn.strip(lhs))
        bt = (t or '').replace('const ', '').strip()
        if ln['k'] == 'MemberExpr' and bt in ('unsigned short', 'unsigned char') and not v.is_const():
            rhs_t = fn.type_of(fn.N(fn.strip(fn.N(i)['ch'][1])))
            self.oblige(fn, st, i, 'narrow-store', '%s <= %d (stored into %s field)' % (v, TYPE_MAX[bt], bt), ge(Lin.const(TYPE_MAX[bt]) - v), chain)

    def call(self, fn, st, i, chain):
        n = fn.N(i)
        k = n['k']
        cn = n.get('cn') or ''
        bcn = strip_targs(cn)
        sh = q.short_of(cn)
        args = fn.args(i)
        t = fn.type_of(n)
        if n.get('noret'):
            return 'end'
        for hk in self.site_hooks:
            hk(self, fn, st, i, chain)
        # ---- intrinsics with obligations
        if bcn in ('memcpy', 'memmove', 'memcmp') and len(args) == 3:
            nbytes = self.value(fn, st, args[2])
            for which, a in (('dst', args[0]), ('src', args[1])):
                pv = self.value(fn, st, a)
                self.oblige_range(fn, st, i, bcn + '-' + which, pv, nbytes, '%s %s' % (bcn, which), chain)
            if bcn != 'memcmp':
                dv = self.value(fn, st, args[0])
                b = self.base_of(dv)
                if b:
                    self.havoc(st, atoms=[b[1:]], prefixes=[b[1:]])
            return None
        if k == 'CXXOperatorCallExpr' and n.get('op') in ('+', '-') and len(n['ch']) == 3:
            l, r = self.value(fn, st, n['ch'][1]), self.value(fn, st, n['ch'][2])
            if self._has_base(l) or self._has_base(r):
                st.val[i] = l + r if n['op'] == '+' else l - r
                return None
        if bcn in ('std::max', 'std::min') and len(args) == 2:
            a0, a1 = self.value(fn, st, args[0]), self.value(fn, st, args[1])
            m = Lin.atom(self.newatom(sh, t, st))
            if bcn == 'std::max':
                st.cons += [ge(m - a0), ge(m - a1)]
            else:
                st.cons += [ge(a0 - m), ge(a1 - m)]
            st.val[i] = m
            return None
        if bcn == 'std::find' and len(args) == 3:
            first, last = self.value(fn, st, args[0]), self.value(fn, st, args[1])
            d = Lin.atom(self.newatom('found'))
            st.cons += [ge(d), ge(last - first - d)]
            st.val[i] = first + d
            return None
        if k == 'CXXOperatorCallExpr' and n.get('op') == '=' and len(n['ch']) == 3 and g_is_implicit_copy(self.P, n):
            dst, src = self.path_atom(fn, n['ch'][1]), self.path_atom(fn, n['ch'][2])
            if dst and src:
                for kx in [x for x in st.env if x.startswith(dst + '.')]:
                    del st.env[kx]
                for kx, vx in list(st.env.items()):
                    if kx.startswith(src + '.'):
                        st.env[dst + kx[len(src):]] = vx
                return None
        if bcn in self.range_sinks:
            pi, li = self.range_sinks[bcn]
            ra = [a for a in args if fn.N(a)['k'] != 'CXXDefaultArgExpr']
            if len(ra) > max(pi, li):
                pv = self.value(fn, st, ra[pi])
                self.oblige_range(fn, st, i, sh + '(p,n)', pv, self.value(fn, st, ra[li]), '%s(p,n)' % sh, chain)
                if t and t != 'void':
                    st.val[i] = Lin.atom(self.newatom('call:' + sh, t, st))
                return None
        if bcn == 'memset' and len(args) == 3:
            pv = self.value(fn, st, args[0])
            self.oblige_range(fn, st, i, 'memset', pv, self.value(fn, st, args[2]), 'memset', chain)
            return None
        if k in ('CXXConstructExpr', 'CXXTemporaryObjectExpr') and bcn == 'std::basic_string::basic_string' and len(args) >= 2 and (n.get('ov') or [''])[0].startswith('const char *') and \
                (n.get('ov') or ['', ''])[1] in ('unsigned long', 'std::size_t'):
            pv = self.value(fn, st, args[0])
            ln = self.value(fn, st, args[1])
            self.oblige_range(fn, st, i, 'string(p,n)', pv, ln, 'std::string(p,n)', chain)
            st.val[i] = Lin.atom(self.newatom('str'))
            return None
        if k in ('CXXConstructExpr', 'CXXTemporaryObjectExpr') and bcn == 'std::basic_string::basic_string' and len(args) >= 2 and (n.get('ov') or ['', ''])[0] == 'const char *' and \
                (n.get('ov') or ['', ''])[1] == 'const char *':
            first = self.value(fn, st, args[0])
            last = self.value(fn, st, args[1])
            if self.base_of(first) and self.base_of(first) == self.base_of(last):
                self.oblige_range(fn, st, i, 'string(first,last)', first, last - first, 'std::string(first,last)', chain)
            return None
        if k == 'CXXMemberCallExpr':
            o = fn.obj(i)
            oa = self.path_atom(fn, o) if o is not None else None
            ov = n.get('ov') or []
            if sh in ('assign', 'append') and len(args) == 2 and ov and ov[0].startswith('const char *'):
                pv = self.value(fn, st, args[0])
                ln = self.value(fn, st, args[1])
                self.oblige_range(fn, st, i, '%s(p,n)' % sh, pv, ln, 'string::%s(p,n)' % sh, chain)
                if oa:
                    old = self.size_of(st, oa)
                    st.env[oa + '.size()'] = ln if sh == 'assign' else old + ln
                return None
            if sh in ('resize',) and oa and args:
                v = self.value(fn, st, args[0])
                st.env[oa + '.size()'] = v
                return None
            if sh in ('clear',) and oa:
                st.env[oa + '.size()'] = Lin.const(0)
                return None
            if sh == 'substr' and oa and args:
                pos = self.value(fn, st, args[0])
                self.oblige(fn, st, i, 'substr', 'substr: %s <= size(%s)' % (pos, oa), ge(self.size_of(st, oa) - pos), chain)
                return None
            if sh == 'assign' and len(args) == 2 and oa and ov and not ov[0].startswith('const char *') and ('long' in ov[0] or 'int' in ov[0] or 'size_t' in ov[0]):
                # vector / string assign(count, value): the container now holds `count` elements
                st.env[oa + '.size()'] = self.value(fn, st, args[0])
                return None
            if sh in SIZE_METHODS | PTR_METHODS | END_METHODS or sh in ('empty', 'front', 'back', 'capacity', 'get'):
                if sh in ('front', 'back') and oa and getattr(self, 'front_needs_element', False):
                    ot_ = fn.type_of(fn.N(fn.strip(o))) or ''
                    if ot_.replace('const ', '').startswith('std::vector<'):
                        sz_ = self.size_of(st, oa)
                        self.oblige(fn, st, i, sh + '-nonempty', '%s.%s(): the container is not empty (size=%s)' % (oa.split('::')[-1], sh, sz_), ge(sz_ - Lin.const(1)), chain)
                if sh == 'empty' and oa:
                    sz = self.size_of(st, oa)
                    st.val[i] = ('cond', [[eq(sz)]], [[ge(sz - Lin.const(1))]])
                return None
        if k == 'CXXOperatorCallExpr' and n.get('op') == '[]' and len(n['ch']) == 3:
            oa = self.path_atom(fn, n['ch'][1])
            ot = fn.type_of(fn.N(fn.strip(n['ch'][1]))) or ''
            if oa and ot.replace('const ', '').startswith(('std::vector<', 'std::basic_string<')):
                idx = self.value(fn, st, n['ch'][2])
                par = fn.parent.get(i)
                addr = par is not None and fn.N(par)['k'] == 'UnaryOperator' and fn.N(par).get('op') == '&'
                size = self.size_of(st, oa)
                if addr:
                    if not (idx.is_const() and idx.c == 0):
                        self.oblige(fn, st, i, 'addr-index', '&%s[%s]: index <= size=%s' % (oa.split('::')[-1], idx, size), ge(size - idx), chain)
                else:
                    self.oblige(fn, st, i, 'index', '%s[%s]: index < size=%s' % (oa.split('::')[-1], idx, size), ge(size - idx - Lin.const(1)), chain)
                    self.oblige(fn, st, i, 'index-lo', '%s[%s]: index >= 0' % (oa.split('::')[-1], idx), ge(idx), chain)
            return None
        if k in ('CXXConstructExpr', 'CXXTemporaryObjectExpr') and len([a for a in args if fn.N(a)['k'] != 'CXXDefaultArgExpr']) == 1:
            ov = n.get('ov') or ['']
            rec = n.get('rec') or ''
            if rec and rec in ov[0]:            # copy / move construction keeps the (pointer-like) value
                v = self.value(fn, st, args[0])
                st.val[i] = v
                return None
        # ---- inlining
        callee = n.get('callee')
        g = self.P.fns.get(callee)
        if g is not None and len(chain) <= self.depth and g not in chain and g.bname not in self.opaque_calls and g.entry is not None and self._inlinable(fn, g, i):
            return self.inline(fn, st, i, g, chain)
        # ---- unknown call: havoc what it may write
        atoms, prefixes = set(), set()
        self._written(fn, i, atoms, prefixes)
        if atoms or prefixes:
            self.havoc(st, atoms, prefixes)
        if t and t != 'void':
            st.val[i] = Lin.atom(self.newatom('call:' + (sh or '?'), t, st))
        return None

    def _inlinable(self, fn, g, i):
        if g.kind in ('ctor', 'dtor'):
            return False
        if len(g.blocks) > 40:
            return False
        n = fn.N(i)
        if n['k'] == 'CXXMemberCallExpr':
            o = fn.obj(i)
            if o is None:
                return False
            return fn.N(fn.strip(o))['k'] == 'CXXThisExpr'     # same object: fields keep their names
        return n['k'] == 'CallExpr'

    def inline(self, fn, st, i, g, chain):
        self._register_types(g)
        st2 = st.clone()
        args = fn.args(i)
        for p, a in zip(g.params, args):
            pt = g.types[p['t']]
            if (pt or '').rstrip().endswith('&') and not (pt or '').rstrip().endswith('&&'):
                pa = self.path_atom(fn, a)
                if pa is not None:
                    if not hasattr(self, '_alias'):
                        self._alias = {}
                    self._alias[p['ref']] = pa
                    continue
            st2.env[p['ref']] = self.value(fn, st, a)
        saved = {k: v for k, v in st.val.items()}
        st2.val = {}
        res = self._run(g, st2, chain + (g,))
        out = []
        for (s, rv) in res:
            s.val = dict(saved)
            retnode = None
            if rv is not None:
                s.val[i] = rv
            out.append((s, rv))
        if not out:
            return 'end'
        # predicate callee with a single return expression: expose it as a branch condition
        rets = g.returns()
        if g.ret == 'bool' and len(rets) == 1 and len(out) == 1:
            s = out[0][0]
            rn = g.ret_value(rets[0])
            s.val[i] = ('cond', self.dnf(g, s, rn, True), self.dnf(g, s, rn, False))
        if len(out) == 1:
            st.env, st.cons, st.val, st.notes = out[0][0].env, out[0][0].cons, out[0][0].val, out[0][0].notes
            return None
        # several continuations: caller forks
        st.env, st.cons, st.val, st.notes = out[0][0].env, out[0][0].cons, out[0][0].val, out[0][0].notes
        return out
