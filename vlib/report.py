"""Rule context: instance bookkeeping, floors, known findings, evidence, exit codes."""
import json, os, sys, time
from .build import AnalysisBroken, VERIF

KNOWN = os.path.join(VERIF, 'known_findings.json')


class Ctx(object):
    def __init__(self, pid, tier, seed):
        self.pid = pid
        self.tier = tier
        self.seed = seed
        self.t0 = time.time()
        self.rules = {}          # rule -> dict(desc, instances:[...])
        self.order = []
        self.violations = []     # (rule, key, message, loc, extra)
        self.known_hits = []
        self.assumptions = []
        self.trusted = []
        self.units = []
        self.stats = {}
        self.level = 'other'
        self.explanation = ''
        self.notes = []
        try:
            with open(KNOWN) as fh:
                kf = json.load(fh)
        except IOError:
            kf = {'findings': [], 'fixed': []}
        self.known = [k for k in kf.get('findings', []) if k.get('property') == pid]

    # -- rules -------------------------------------------------------------
    def rule(self, rid, desc):
        if rid not in self.rules:
            self.rules[rid] = {'desc': desc, 'instances': [], 'failed': 0}
            self.order.append(rid)
        return rid

    def check(self, ok, rid, key, message='', loc=None, detail=None):
        """one rule instance.  key: stable textual identity (function + callee/field),
        never a line number."""
        r = self.rules[rid]
        inst = {'key': key, 'loc': loc, 'ok': bool(ok)}
        if detail is not None:
            inst['detail'] = detail
        r['instances'].append(inst)
        if not ok:
            inst['message'] = message
            for k in self.known:
                if k.get('rule') == rid and k.get('instance') == key:
                    self.known_hits.append((k, inst))
                    inst['known'] = True
                    return False
            r['failed'] += 1
            self.violations.append((rid, key, message, loc, detail))
        return bool(ok)

    def floor(self, rid, n, what='instances'):
        have = len(self.rules[rid]['instances'])
        if self.violations:
            return      # a reported violation explains missing dependent instances; it is not masked by exit 2
        # n instances were confirmed by hand on the pinned tree.  Merging duplicated code or dropping a guarded site
        # legitimately removes a few; losing more than a quarter means an anchor moved or the extractor went blind.
        least = max(1, n - max(2, n // 4))
        self.rules[rid]['confirmed_instances'] = n
        if have < least:
            raise AnalysisBroken('%s: only %d %s found, %d were confirmed by hand on the pinned tree '
                                 '(anchor moved or extractor incomplete)' % (rid, have, what, n))

    def require(self, cond, msg):
        if not cond:
            raise AnalysisBroken(msg)

    def assume(self, text):
        if text not in self.assumptions:
            self.assumptions.append(text)

    def trust(self, text):
        if text not in self.trusted:
            self.trusted.append(text)

    # -- output ------------------------------------------------------------
    def finish(self):
        ev_dir = os.environ.get('VERIF_EVIDENCE_DIR') or os.path.join(VERIF, 'evidence')
        os.makedirs(ev_dir, exist_ok=True)
        total = sum(len(r['instances']) for r in self.rules.values())
        known_failed = len(self.known_hits)
        ok = sum(1 for r in self.rules.values() for i in r['instances'] if i['ok'])
        distinct = len(set((rid, i['key']) for rid, r in self.rules.items() for i in r['instances']))
        samples = []
        for rid in self.order:
            r = self.rules[rid]
            for inst in r['instances'][:3]:
                samples.append({'rule': rid, 'instance': inst['key'], 'at': inst['loc'], 'verdict': 'holds' if inst['ok'] else 'fails',
                                **({'detail': inst['detail']} if 'detail' in inst else {})})
        rules_out = []
        for rid in self.order:
            r = self.rules[rid]
            rules_out.append({'rule': rid, 'what': r['desc'], 'instances': len(r['instances']),
                              'failed': r['failed'],
                              'sites': [{'key': i['key'], 'at': i['loc'], 'ok': i['ok']} for i in r['instances']][:400]})
        paths = []
        vdir = os.path.join(ev_dir, 'violations')
        for n, (rid, key, msg, loc, detail) in enumerate(self.violations):
            os.makedirs(vdir, exist_ok=True)
            p = os.path.join(vdir, '%s-%s-%d.json' % (self.pid, rid.replace('.', '_'), n))
            with open(p, 'w') as fh:
                json.dump({'property': self.pid, 'rule': rid, 'what': self.rules[rid]['desc'], 'instance': key,
                           'at': loc, 'message': msg, 'detail': detail}, fh, indent=1, default=str)
            paths.append(p)
        ev = {
            'property_id': self.pid, 'tier': self.tier, 'seed': self.seed, 'level': self.level,
            'coverage': {
                'explanation': self.explanation,
                'obligations': total, 'discharged': ok,
                'evaluations': total, 'distinct_nontrivial': distinct,
                'rule': 'one obligation per rule instance (a call site, field access, overrider, CFG path class, '
                        'abstract input box or linear obligation) found by role in the current sources; distinct = distinct (rule, instance key)',
                'checker_cmd': './check %s --tier %s' % (self.pid, self.tier),
                'trusted_base': ['clang 14 front end (AST, CFG, constant evaluation)', '/verif/tools/facts extractor',
                                 '/verif/vlib analyses'] + self.trusted,
                'units': self.units, 'stats': self.stats,
                'rules': rules_out, 'samples': samples,
                'known_findings_reported': known_failed,
                'exhaustive': False,
            },
            'assumptions': self.assumptions,
            'wall_s': round(time.time() - self.t0, 2),
            'violations': len(self.violations),
        }
        if self.notes:
            ev['coverage']['notes'] = self.notes
        with open(os.path.join(ev_dir, '%s.json' % self.pid), 'w') as fh:
            json.dump(ev, fh, indent=1, default=str)
        for rid in self.order:
            r = self.rules[rid]
            print('  %-10s %-62s instances=%-4d failed=%d' % (rid, r['desc'][:62], len(r['instances']), r['failed']))
        for (k, inst) in self.known_hits:
            print('KNOWN-FINDING: property=%s %s %s: %s' % (self.pid, k.get('rule'), k.get('instance'), k.get('what', inst.get('message', ''))))
        if self.violations:
            for (rid, key, msg, loc, detail), p in zip(self.violations, paths):
                print('%s: %s [%s] %s' % (loc, rid, key, msg))
                print('VIOLATION property=%s replay=%s' % (self.pid, p))
            return 1
        print('OK %s tier=%s: %d obligations over %d rules, all hold (%.1fs)' % (self.pid, self.tier, total, len(self.rules), time.time() - self.t0))
        return 0


def broken(pid, tier, seed, msg, t0):
    """exit 2: never a pass, never a violation. Evidence still says what happened."""
    ev_dir = os.path.join(VERIF, 'evidence')
    os.makedirs(ev_dir, exist_ok=True)
    print('ANALYSIS-BROKEN property=%s: %s' % (pid, msg))
    return 2
