"""Linear expressions over symbolic atoms and Fourier-Motzkin infeasibility (engine E4 core)."""
from fractions import Fraction
from .model import strip_targs, CALL_KINDS


class Lin(object):
    __slots__ = ('t', 'c')

    def __init__(self, t=None, c=0):
        self.t = dict(t or {})
        self.c = Fraction(c)

    @staticmethod
    def atom(a):
        return Lin({a: Fraction(1)}, 0)

    @staticmethod
    def const(v):
        return Lin({}, v)

    def __add__(self, o):
        r = Lin(self.t, self.c + o.c)
        for k, v in o.t.items():
            nv = r.t.get(k, 0) + v
            if nv == 0:
                r.t.pop(k, None)
            else:
                r.t[k] = nv
        return r

    def __neg__(self):
        return Lin({k: -v for k, v in self.t.items()}, -self.c)

    def __sub__(self, o):
        return self + (-o)

    def scale(self, k):
        k = Fraction(k)
        if k == 0:
            return Lin()
        return Lin({a: v * k for a, v in self.t.items()}, self.c * k)

    def is_const(self):
        return not self.t

    def atoms(self):
        return set(self.t)

    def subst(self, a, e):
        if a not in self.t:
            return self
        k = self.t[a]
        r = Lin({x: v for x, v in self.t.items() if x != a}, self.c)
        return r + e.scale(k)

    def key(self):
        return (tuple(sorted(self.t.items())), self.c)

    def __eq__(self, o):
        return isinstance(o, Lin) and self.key() == o.key()

    def __hash__(self):
        return hash(self.key())

    def __repr__(self):
        parts = []
        for a, v in sorted(self.t.items()):
            parts.append(('%s*' % v if v != 1 else '') + a)
        if self.c != 0 or not parts:
            parts.append(str(self.c))
        return ' + '.join(parts)


# A constraint is  Lin >= 0  (kind 'ge')  or  Lin == 0 ('eq').  Strict > over integers: e > 0 == e-1 >= 0.
def ge(e):
    return ('ge', e)


def eq(e):
    return ('eq', e)


def negate(con):
    """negation of an integer constraint as a list of alternative constraints (disjunction)"""
    kind, e = con
    if kind == 'ge':            # not(e >= 0)  ==  -e - 1 >= 0
        return [ge((-e) - Lin.const(1))]
    return [ge(e - Lin.const(1)), ge((-e) - Lin.const(1))]


def infeasible(cons, limit=4000):
    """Fourier-Motzkin: True iff the conjunction has no rational solution (hence no integer one)."""
    ges = []
    eqs = []
    for kind, e in cons:
        (eqs if kind == 'eq' else ges).append(e)
    # eliminate equalities by substitution
    while eqs:
        e = eqs.pop()
        if e.is_const():
            if e.c != 0:
                return True
            continue
        a = sorted(e.t)[0]
        k = e.t[a]
        # a = -(rest)/k
        rest = Lin({x: v for x, v in e.t.items() if x != a}, e.c).scale(Fraction(-1) / k)
        eqs = [x.subst(a, rest) for x in eqs]
        ges = [x.subst(a, rest) for x in ges]
    rows = list(set(ges))
    while True:
        for r in rows:
            if r.is_const() and r.c < 0:
                return True
        rows = [r for r in rows if not r.is_const()]
        if not rows:
            return False
        # pick the atom with fewest pos*neg products
        atoms = set()
        for r in rows:
            atoms |= r.atoms()
        best = None
        for a in atoms:
            p = sum(1 for r in rows if r.t.get(a, 0) > 0)
            n = sum(1 for r in rows if r.t.get(a, 0) < 0)
            cost = p * n - p - n
            if best is None or cost < best[0]:
                best = (cost, a)
        a = best[1]
        pos = [r for r in rows if r.t.get(a, 0) > 0]
        neg = [r for r in rows if r.t.get(a, 0) < 0]
        rest = [r for r in rows if a not in r.t]
        new = set(rest)
        for p in pos:
            for n in neg:
                c = p.scale(Fraction(1) / p.t[a]) + n.scale(Fraction(-1) / n.t[a])
                new.add(c)
        if len(new) > limit:
            return False      # give up: not proved
        rows = list(new)


def implies(cons, goal):
    """cons => goal   (goal a single constraint)"""
    for alt in negate(goal):
        if not infeasible(list(cons) + [alt]):
            return False
    return True


# ------------------------------------------------------------------------------------------
class Symb(object):
    """turns expression nodes of a function into Lin over canonical atoms"""

    def __init__(self, fn, env=None):
        self.fn = fn
        self.env = env or {}     # var ref -> Lin (current symbolic value)
        self.fresh = 0

    def opaque(self, i):
        return 'x%d:%s' % (i, self.fn.N(i)['k'])

    def atom_of(self, i):
        """canonical name of a pure, side-effect free term"""
        fn = self.fn
        i = fn.strip(i)
        n = fn.N(i)
        k = n['k']
        if k == 'DeclRefExpr':
            return n['ref']
        if k == 'MemberExpr':
            ap = fn.access_path(i)
            if ap:
                return '.'.join(strip_targs(x) for x in ap)
        if k == 'CXXMemberCallExpr':
            o = fn.obj(i)
            sh = strip_targs(n.get('cn', '?')).rsplit('::', 1)[-1]
            if o is not None and not fn.args(i):
                oa = self.atom_of(o)
                if oa:
                    return '%s.%s()' % (oa, sh)
        if k == 'CXXThisExpr':
            return 'this'
        if k in ('UnaryOperator',) and n.get('op') in ('*', '&'):
            a = self.atom_of(n['ch'][0])
            if a:
                return n['op'] + a
        if k == 'CXXOperatorCallExpr' and n.get('op') in ('*', '->') and len(n['ch']) == 2:
            a = self.atom_of(n['ch'][1])
            if a:
                return '*' + a
        return None

    def lin(self, i):
        fn = self.fn
        n0 = fn.N(i)
        if 'cv' in n0:
            return Lin.const(n0['cv'])
        i = fn.strip(i)
        n = fn.N(i)
        if 'cv' in n:
            return Lin.const(n['cv'])
        k = n['k']
        if k in ('CStyleCastExpr', 'CXXStaticCastExpr', 'CXXFunctionalCastExpr', 'CXXReinterpretCastExpr'):
            return self.lin(n['ch'][0])
        if k == 'BinaryOperator':
            op = n.get('op')
            if op in ('+', '-'):
                l, r = self.lin(n['ch'][0]), self.lin(n['ch'][1])
                return l + r if op == '+' else l - r
            if op == '*':
                l, r = self.lin(n['ch'][0]), self.lin(n['ch'][1])
                if l.is_const():
                    return r.scale(l.c)
                if r.is_const():
                    return l.scale(r.c)
            if op == ',':
                return self.lin(n['ch'][1])
        if k == 'UnaryOperator':
            if n.get('op') == '-':
                return -self.lin(n['ch'][0])
            if n.get('op') == '+':
                return self.lin(n['ch'][0])
        if k == 'CXXOperatorCallExpr' and n.get('op') in ('+', '-') and len(n['ch']) == 3:
            # iterator / pointer-like class arithmetic: it + n, it - n, it - it
            l, r = self.lin(n['ch'][1]), self.lin(n['ch'][2])
            return l + r if n['op'] == '+' else l - r
        if k in ('CXXConstructExpr', 'CXXTemporaryObjectExpr') and len([c_ for c_ in n['ch'] if fn.N(c_)['k'] != 'CXXDefaultArgExpr']) == 1:
            rec = (n.get('rec') or '')
            ov = (n.get('ov') or [''])
            if rec and rec.split('<')[0] in ov[0]:          # copy / move construction keeps the value
                return self.lin([c_ for c_ in n['ch'] if fn.N(c_)['k'] != 'CXXDefaultArgExpr'][0])
        if k in ('CallExpr', 'CXXMemberCallExpr') and not n.get('virt') and getattr(self, '_hdepth', 0) < 3:
            # expression helper of the same unit: `T f(params) { return E; }` with unmodified parameters stands for E over the arguments
            hc = fn._helper_ctx(i) if hasattr(fn, '_helper_ctx') else None
            if hc is not None:
                g, amap = hc
                rets = g.returns()
                body = g.N(g.body)['ch'] if g.body is not None and g.body >= 0 else []
                if len(rets) == 1 and len(body) == 1 and body[0] == rets[0] and g.ret_value(rets[0]) is not None and len(amap) == len(g.params):
                    try:
                        j = fn._import(g, g.ret_value(rets[0]), amap, i, strict=True)
                    except ValueError:
                        j = None
                    if j is not None:
                        self._hdepth = getattr(self, '_hdepth', 0) + 1
                        try:
                            return self.lin(j)
                        finally:
                            self._hdepth -= 1
        a = self.atom_of(i)
        if a is not None:
            if a in self.env:
                return self.env[a]
            return Lin.atom(a)
        return Lin.atom(self.opaque(i))

    def rel(self, i, polarity=True):
        """constraints (conjunction list) implied by comparison node i being `polarity`, or None"""
        fn = self.fn
        i = fn.strip(i)
        n = fn.N(i)
        if n['k'] != 'BinaryOperator' or n.get('op') not in ('<', '<=', '>', '>=', '==', '!='):
            return None
        l, r = self.lin(n['ch'][0]), self.lin(n['ch'][1])
        op = n['op']
        if not polarity:
            op = {'<': '>=', '<=': '>', '>': '<=', '>=': '<', '==': '!=', '!=': '=='}[op]
        d = l - r
        if op == '<':
            return [ge((-d) - Lin.const(1))]
        if op == '<=':
            return [ge(-d)]
        if op == '>':
            return [ge(d - Lin.const(1))]
        if op == '>=':
            return [ge(d)]
        if op == '==':
            return [eq(d)]
        return None     # != is a disjunction: callers split if they need it
