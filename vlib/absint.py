"""E3 `absint`: abstract interpreter for small byte-level functions.

Integers are finite value sets (<= SETCAP elements) or intervals with a stride; inputs are arrays of
abstract bytes with a concrete length; pointers are (array, concrete offset); strings / streambufs are
emission logs.  When a branch, a switch or a narrowing conversion is not decided on the current input
box the interpreter raises Split(byte index): the driver bisects that input byte and re-evaluates, so
every verdict is computed on a box on which the code behaves uniformly.  It evaluates sets of inputs,
never the compiled code."""
import math
from .model import strip_targs, CALL_KINDS
from .build import AnalysisBroken

SETCAP = 600
WIDTH = {'char': (8, True), 'signed char': (8, True), 'unsigned char': (8, False), 'short': (16, True), 'unsigned short': (16, False),
         'int': (32, True), 'unsigned int': (32, False), 'long': (64, True), 'unsigned long': (64, False), 'long long': (64, True),
         'unsigned long long': (64, False), 'bool': (1, False), 'wchar_t': (32, True)}


class Split(Exception):
    def __init__(self, idx):
        self.idx = idx


class Unsupported(Exception):
    pass


class OutOfBounds(Exception):
    pass


class Undefined(OutOfBounds):
    """other undefined behaviour met on an interpreted path (a value-returning function that falls off its end)"""
    pass


class AV(object):
    """abstract integer"""
    __slots__ = ('vals', 'lo', 'hi', 'stride', 'deps')

    def __init__(self, vals=None, lo=None, hi=None, stride=1, deps=frozenset()):
        if vals is not None:
            vals = frozenset(vals)
            self.vals = vals
            self.lo, self.hi = min(vals), max(vals)
            self.stride = 1
        else:
            self.vals = None
            self.lo, self.hi, self.stride = lo, hi, max(1, stride)
            n = (hi - lo) // self.stride + 1
            if n <= SETCAP:
                self.vals = frozenset(range(lo, hi + 1, self.stride))
                self.stride = 1
        self.deps = frozenset(deps)

    @staticmethod
    def const(v):
        return AV(vals=[int(v)])

    def is_const(self):
        return self.lo == self.hi

    def size(self):
        return len(self.vals) if self.vals is not None else (self.hi - self.lo) // self.stride + 1

    def __repr__(self):
        if self.is_const():
            return '%d' % self.lo
        if self.vals is not None and len(self.vals) <= 6:
            return '{%s}' % ','.join(str(v) for v in sorted(self.vals))
        return '[%d..%d%s]' % (self.lo, self.hi, '/%d' % self.stride if self.stride > 1 else '')


def binop(op, a, b):
    deps = a.deps | b.deps
    if a.vals is not None and b.vals is not None and len(a.vals) * len(b.vals) <= 70000:
        out = set()
        for x in a.vals:
            for y in b.vals:
                out.add(_conc(op, x, y))
        if len(out) <= SETCAP:
            return AV(vals=out, deps=deps)
        lo, hi = min(out), max(out)
        g = 0
        for v in out:
            g = math.gcd(g, v - lo)
        return AV(lo=lo, hi=hi, stride=g or 1, deps=deps)
    # interval arithmetic
    if op == '+':
        return AV(lo=a.lo + b.lo, hi=a.hi + b.hi, stride=math.gcd(a.stride if not a.is_const() else 0, b.stride if not b.is_const() else 0) or 1, deps=deps)
    if op == '-':
        return AV(lo=a.lo - b.hi, hi=a.hi - b.lo, stride=math.gcd(a.stride if not a.is_const() else 0, b.stride if not b.is_const() else 0) or 1, deps=deps)
    if op == '*' and b.is_const() and b.lo >= 0:
        return AV(lo=a.lo * b.lo, hi=a.hi * b.lo, stride=a.stride * max(b.lo, 1), deps=deps)
    if op == '*' and a.is_const() and a.lo >= 0:
        return binop('*', b, a)
    if op == '<<' and b.is_const():
        k = 2 ** b.lo
        return AV(lo=a.lo * k, hi=a.hi * k, stride=a.stride * k, deps=deps)
    if op == '>>' and b.is_const() and a.lo >= 0:
        return AV(lo=a.lo >> b.lo, hi=a.hi >> b.lo, deps=deps)
    if op == '/' and b.is_const() and b.lo > 0 and a.lo >= 0:
        return AV(lo=a.lo // b.lo, hi=a.hi // b.lo, deps=deps)
    if op == '|' and a.lo >= 0 and b.lo >= 0:
        # disjoint bit ranges: a is a multiple of 2^k and b < 2^k
        for x, y in ((a, b), (b, a)):
            k = y.hi.bit_length()
            if (x.is_const() or x.stride % (2 ** k) == 0) and x.lo % (2 ** k) == 0:
                return AV(lo=x.lo + y.lo, hi=x.hi + y.hi, stride=math.gcd(x.stride, y.stride if not y.is_const() else 0) if y.stride > 1 or y.is_const() else 1, deps=deps)
        raise Split(_pick(deps))
    if op == '&' and b.is_const() and a.lo >= 0:
        m = b.lo
        k = m.bit_length()
        if m == 2 ** k - 1:
            if (a.lo >> k) == (a.hi >> k):
                return AV(lo=a.lo & m, hi=a.hi & m, stride=a.stride if a.stride < 2 ** k else 1, deps=deps)
            if a.stride == 1 and a.hi - a.lo + 1 >= 2 ** k:
                return AV(lo=0, hi=m, deps=deps)
        raise Split(_pick(deps))
    if op == '&' and a.is_const():
        return binop('&', b, a)
    if op == '%' and b.is_const() and b.lo > 0 and a.lo >= 0:
        if a.lo // b.lo == a.hi // b.lo:
            return AV(lo=a.lo % b.lo, hi=a.hi % b.lo, stride=a.stride, deps=deps)
        raise Split(_pick(deps))
    raise Split(_pick(deps)) if deps else Unsupported('binary %s on %r, %r' % (op, a, b))


def _conc(op, x, y):
    if op == '+':
        return x + y
    if op == '-':
        return x - y
    if op == '*':
        return x * y
    if op == '/':
        if y == 0:
            raise Unsupported('division by zero')
        return int(x / y) if (x < 0) != (y < 0) else x // y
    if op == '%':
        if y == 0:
            raise Unsupported('modulo zero')
        return x - y * (int(x / y) if (x < 0) != (y < 0) else x // y)
    if op == '<<':
        return x << y
    if op == '>>':
        return x >> y
    if op == '&':
        return x & y
    if op == '|':
        return x | y
    if op == '^':
        return x ^ y
    raise Unsupported(op)


def _pick(deps):
    if not deps:
        raise Unsupported('undecided value without input dependency')
    return deps


def compare(op, a, b):
    """True / False / None"""
    if op == '<':
        if a.hi < b.lo:
            return True
        if a.lo >= b.hi:
            return False
    elif op == '<=':
        if a.hi <= b.lo:
            return True
        if a.lo > b.hi:
            return False
    elif op == '>':
        return compare('<', b, a)
    elif op == '>=':
        return compare('<=', b, a)
    elif op in ('==', '!='):
        eq = None
        if a.is_const() and b.is_const():
            eq = a.lo == b.lo
        elif a.hi < b.lo or b.hi < a.lo:
            eq = False
        elif a.vals is not None and b.vals is not None and not (a.vals & b.vals):
            eq = False
        if eq is None:
            return None
        return eq if op == '==' else (not eq)
    if a.vals is not None and b.vals is not None and len(a.vals) * len(b.vals) <= 70000:
        res = set()
        for x in a.vals:
            for y in b.vals:
                res.add({'<': x < y, '<=': x <= y}[op] if op in ('<', '<=') else None)
                if len(res) > 1:
                    return None
        return res.pop()
    return None


class Arr(object):
    def __init__(self, elems, name='', signed=None):
        self.elems = list(elems)
        self.name = name


class PV(object):
    """pointer / iterator into an array, or an output iterator"""
    __slots__ = ('arr', 'off')

    def __init__(self, arr, off):
        self.arr, self.off = arr, off

    def __repr__(self):
        return '&%s[%d]' % (self.arr.name, self.off)


class Out(object):
    """output string / streambuf / back inserter: an emission log of abstract bytes"""

    def __init__(self, name='out'):
        self.items = []
        self.name = name

    def put(self, v):
        self.items.append(v)


class Cell(object):
    __slots__ = ('v',)

    def __init__(self, v=None):
        self.v = v


class FnRef(object):
    """value of a function pointer: hook(interp, fn, call_node, env) summarises the pointed-to function"""
    def __init__(self, hook, name='fn'):
        self.hook, self.name = hook, name

    def __repr__(self):
        return '&%s' % self.name


class _Return(Exception):
    def __init__(self, v):
        self.v = v


class _Break(Exception):
    pass


class _Continue(Exception):
    pass


class Interp(object):
    def __init__(self, P, box, max_steps=200000, hooks=None):
        self.P = P
        self.box = box           # list of (lo,hi) per input byte
        self.steps = 0
        self.max_steps = max_steps
        self.hooks = hooks or {}
        self.depth = 0
        self.events = []         # free-form log (calls to hooked functions)
        self.cur_loc = None      # source position of the statement being interpreted (for reports)

    # ------------------------------------------------------------ helpers
    def inbyte(self, i):
        lo, hi = self.box[i]
        return AV(lo=lo, hi=hi, deps=[i])

    def split_on(self, deps):
        # widest dependent input byte
        best = None
        for d in deps:
            lo, hi = self.box[d]
            if hi > lo and (best is None or hi - lo > best[0]):
                best = (hi - lo, d)
        if best is None:
            raise Unsupported('undecided on a point box (checker imprecision)')
        raise Split(best[1])

    def wrap(self, v, t):
        if not isinstance(v, AV):
            return v
        t = (t or '').replace('const ', '').replace('volatile ', '').strip()
        if t not in WIDTH:
            return v
        bits, signed = WIDTH[t]
        if t == 'bool':
            if v.lo == 0 and v.hi == 0:
                return AV.const(0)
            if (v.vals is not None and 0 not in v.vals) or v.lo > 0 or v.hi < 0:
                return AV(vals=[1], deps=v.deps)
            self.split_on(v.deps)
        lo, hi = (-(2 ** (bits - 1)), 2 ** (bits - 1) - 1) if signed else (0, 2 ** bits - 1)
        if lo <= v.lo and v.hi <= hi:
            return v
        mod = 2 ** bits
        if v.vals is not None:
            out = set()
            for x in v.vals:
                y = x % mod
                if signed and y > hi:
                    y -= mod
                out.add(y)
            return AV(vals=out, deps=v.deps)
        # whole interval must shift by the same multiple of mod
        k1, k2 = (v.lo - lo) // mod, (v.hi - lo) // mod
        if k1 == k2:
            return AV(lo=v.lo - k1 * mod, hi=v.hi - k1 * mod, stride=v.stride, deps=v.deps)
        self.split_on(v.deps)

    def truth(self, v):
        if isinstance(v, (PV, FnRef)):
            return True
        if isinstance(v, AV):
            if v.lo == 0 and v.hi == 0:
                return False
            if (v.vals is not None and 0 not in v.vals) or v.lo > 0 or v.hi < 0:
                return True
            self.split_on(v.deps)
        raise Unsupported('truth of %r' % (v,))

    # ------------------------------------------------------------ calls
    def call_fn(self, fn, args, this=None):
        self.depth += 1
        if self.depth > 12:
            raise Unsupported('call depth')
        env = {}
        for p, a in zip(fn.params, args):
            t = fn.types[p['t']]
            if t.endswith('&') and isinstance(a, Cell):
                env[p['ref']] = a
            else:
                v = a.v if isinstance(a, Cell) else a
                env[p['ref']] = Cell(self.wrap(v, t.rstrip('&').strip()))
        try:
            self.exec_stmt(fn, fn.body, env)
            r = None
            if fn.ret and fn.ret.strip() != 'void' and fn.kind not in ('ctor', 'dtor') and fn.short != 'main':
                self.depth -= 1
                raise Undefined('control reaches the end of %s, which returns %s, without a return value' % (fn.short, fn.ret.strip()))
        except _Return as e:
            r = self.wrap(e.v, fn.ret) if fn.ret else e.v
        self.depth -= 1
        return r

    # ------------------------------------------------------------ statements
    def exec_stmt(self, fn, i, env):
        self.steps += 1
        self.cur_loc = fn.loc(i)
        if self.steps > self.max_steps:
            raise Unsupported('step budget exceeded')
        n = fn.N(i)
        k = n['k']
        if k == 'CompoundStmt':
            for c in n['ch']:
                self.exec_stmt(fn, c, env)
        elif k == 'DeclStmt':
            for d in n['decls']:
                t = fn.types[d['t']]
                if d.get('init') is None:
                    env[d['ref']] = Cell(self.default_value(fn, t, d['name']))
                elif d.get('isref'):
                    env[d['ref']] = self.lval(fn, d['init'], env)
                else:
                    v = self.eval(fn, d['init'], env)
                    if isinstance(v, Cell):
                        v = v.v
                    if isinstance(v, list):
                        v = list(v)
                        t0 = t.replace('const ', '').strip()
                        if t0.endswith(']') and '[' in t0:
                            try:
                                cnt = int(t0[t0.rindex('[') + 1:-1])
                                v += [AV.const(0)] * (cnt - len(v))      # remaining elements are value-initialised
                            except ValueError:
                                pass
                        v = Arr(v, d['name'])
                    elif isinstance(v, Arr) and v.name == 'literal':
                        # char buf[N] = "text": a fresh array of N elements, the literal copied in, the rest zero
                        t0 = t.replace('const ', '').strip()
                        if t0.endswith(']') and '[' in t0:
                            try:
                                cnt = int(t0[t0.rindex('[') + 1:-1])
                            except ValueError:
                                cnt = len(v.elems)
                            v = Arr(list(v.elems) + [AV.const(0)] * (cnt - len(v.elems)), d['name'])
                    env[d['ref']] = Cell(self.wrap(v, t))
        elif k == 'IfStmt':
            c = self.truth(self.eval(fn, n['cond'], env))
            if c:
                self.exec_stmt(fn, n['then'], env)
            elif n.get('else', -1) >= 0:
                self.exec_stmt(fn, n['else'], env)
        elif k in ('WhileStmt', 'ForStmt', 'DoStmt'):
            if k == 'ForStmt' and n.get('init', -1) >= 0:
                self.exec_stmt(fn, n['init'], env)
            first = True
            it = 0
            while True:
                it += 1
                if it > 100000:
                    raise Unsupported('loop bound')
                if not (k == 'DoStmt' and first):
                    if n.get('cond', -1) >= 0 and not self.truth(self.eval(fn, n['cond'], env)):
                        break
                first = False
                try:
                    self.exec_stmt(fn, n['body'], env)
                except _Break:
                    break
                except _Continue:
                    pass
                if k == 'ForStmt' and n.get('inc', -1) >= 0:
                    self.eval(fn, n['inc'], env)
                if k == 'DoStmt':
                    if not self.truth(self.eval(fn, n['cond'], env)):
                        break
        elif k == 'SwitchStmt':
            v = self.eval(fn, n['cond'], env)
            if not isinstance(v, AV):
                raise Unsupported('switch on non-integer')
            if not v.is_const():
                # decided if no case label distinguishes the values
                labels = self.case_labels(fn, n['body'])
                hit = set(x for x in labels if x is not None and ((v.vals is not None and x in v.vals) or (v.vals is None and v.lo <= x <= v.hi)))
                if hit:
                    self.split_on(v.deps)
                val = None
            else:
                val = v.lo
            try:
                self.run_switch_body(fn, n['body'], val, env)
            except _Break:
                pass
        elif k == 'ReturnStmt':
            v = self.eval(fn, n['ch'][0], env) if n['ch'] else None
            if isinstance(v, Cell):
                v = v.v
            raise _Return(v)
        elif k == 'BreakStmt':
            raise _Break()
        elif k == 'ContinueStmt':
            raise _Continue()
        elif k == 'NullStmt':
            pass
        elif k == 'CXXTryStmt':
            # the guarded block only: a throw leaves the interpreted function (see CXXThrowExpr), handlers are not modelled
            self.exec_stmt(fn, n['ch'][0], env)
        elif k in ('CaseStmt', 'DefaultStmt'):
            self.exec_stmt(fn, n['sub'], env)
        else:
            self.eval(fn, i, env)

    def case_labels(self, fn, body):
        out = []
        for j in fn.walk(body):
            nn = fn.N(j)
            if nn['k'] == 'CaseStmt':
                out.append(fn.N(nn['lhs']).get('cv'))
            elif nn['k'] == 'SwitchStmt' and j != body:
                pass
        return out

    def run_switch_body(self, fn, body, val, env):
        b = fn.N(body)
        children = b['ch'] if b['k'] == 'CompoundStmt' else [body]

        def chain_matches(c, want_default):
            nn = fn.N(c)
            while nn['k'] in ('CaseStmt', 'DefaultStmt'):
                if nn['k'] == 'CaseStmt' and not want_default and val is not None and fn.N(nn['lhs']).get('cv') == val:
                    return True
                if nn['k'] == 'DefaultStmt' and want_default:
                    return True
                c = nn['sub']
                nn = fn.N(c)
            return False

        def innermost(c):
            nn = fn.N(c)
            while nn['k'] in ('CaseStmt', 'DefaultStmt'):
                c = nn['sub']
                nn = fn.N(c)
            return c
        start = None
        for idx, c in enumerate(children):
            if chain_matches(c, False):
                start = idx
                break
        if start is None:
            for idx, c in enumerate(children):
                if chain_matches(c, True):
                    start = idx
                    break
        if start is None:
            return
        for c in children[start:]:
            self.exec_stmt(fn, innermost(c), env)

    def default_value(self, fn, t, name):
        t0 = t.replace('const ', '').strip()
        if t0.startswith('std::basic_string'):
            return Out(name)
        if t0.endswith(']') and '[' in t0:
            cnt = int(t0[t0.rindex('[') + 1:-1])
            return Arr([AV.const(0) for _ in range(cnt)], name)
        if t0 in WIDTH:
            return AV.const(0)      # reading an uninitialised scalar is not modelled; the analysed code assigns before use
        return None

    # ------------------------------------------------------------ lvalues
    def lval(self, fn, i, env):
        i = fn.strip(i)
        n = fn.N(i)
        k = n['k']
        if k == 'DeclRefExpr':
            r = n['ref']
            if r in env:
                return env[r]
            if r.startswith(('g:', 'sv:')):
                return self.global_cell(fn, r)
            raise Unsupported('unbound variable %s' % r)
        if k == 'UnaryOperator' and n.get('op') == '*':
            p = self.rvalue(fn, n['ch'][0], env)
            return ('elem', p)
        if k in ('ArraySubscriptExpr',):
            base = self.rvalue(fn, n['ch'][0], env)
            idx = self.rvalue(fn, n['ch'][1], env)
            return self.elem_ref(base, idx)
        if k == 'CXXOperatorCallExpr' and n.get('op') == '[]':
            base = self.rvalue(fn, n['ch'][1], env)
            idx = self.rvalue(fn, n['ch'][2], env)
            return self.elem_ref(base, idx)
        if k == 'CXXOperatorCallExpr' and n.get('op') == '*' and len(n['ch']) == 2:
            p = self.rvalue(fn, n['ch'][1], env)
            return ('elem', p)
        if k in ('CStyleCastExpr', 'CXXStaticCastExpr', 'CXXReinterpretCastExpr', 'CXXConstCastExpr'):
            return self.lval(fn, n['ch'][0], env)
        if k == 'MemberExpr':
            r = n.get('ref')
            if r in env:
                return env[r]
            if r in getattr(self, 'fields', {}):
                return self.fields[r]
        if k in ('UnaryOperator',) and n.get('op') in ('++', '--') and not n.get('post'):
            self.eval(fn, i, env)
            return self.lval(fn, n['ch'][0], env)
        if k in ('BinaryOperator', 'CompoundAssignOperator') and n.get('op', '').endswith('=') and n.get('op') not in ('==', '!=', '<=', '>='):
            r = self.eval(fn, i, env)
            return r if isinstance(r, (Cell, tuple)) else self.lval(fn, n['ch'][0], env)
        if k == 'ConditionalOperator':
            if self.truth(self.rvalue(fn, n['cond'], env)):
                return self.lval(fn, n['then'], env)
            return self.lval(fn, n['else'], env)
        raise Unsupported('lvalue %s at %s' % (k, fn.loc(i)))

    def elem_ref(self, base, idx):
        if isinstance(base, Cell):
            base = base.v
        if isinstance(base, PV):
            if not idx.is_const():
                return ('elems', base, idx)
            return ('elem', PV(base.arr, base.off + idx.lo))
        if isinstance(base, Arr):
            if not idx.is_const():
                return ('elems', PV(base, 0), idx)
            return ('elem', PV(base, idx.lo))
        if isinstance(base, Out):
            raise Unsupported('indexing an output string')
        raise Unsupported('subscript of %r' % (base,))

    def load(self, lv):
        if isinstance(lv, Cell):
            return lv.v
        if lv[0] == 'elem':
            p = lv[1]
            if isinstance(p, Out):
                raise Unsupported('read through output iterator')
            if not isinstance(p, PV):
                raise Unsupported('deref of %r' % (p,))
            if p.off < 0 or p.off >= len(p.arr.elems):
                raise OutOfBounds('read of %s[%d] (size %d)' % (p.arr.name, p.off, len(p.arr.elems)))
            return p.arr.elems[p.off]
        if lv[0] == 'elems':
            p, idx = lv[1], lv[2]
            vals = set()
            deps = set(idx.deps)
            rng = idx.vals if idx.vals is not None else range(idx.lo, idx.hi + 1, idx.stride)
            if len(rng) > 4096:
                self.split_on(idx.deps)
            lo = hi = None
            for j in rng:
                o = p.off + j
                if o < 0 or o >= len(p.arr.elems):
                    raise OutOfBounds('read of %s[%d] (size %d)' % (p.arr.name, o, len(p.arr.elems)))
                e = p.arr.elems[o]
                deps |= e.deps
                if e.vals is not None:
                    vals |= e.vals
                else:
                    self.split_on(idx.deps)
            return AV(vals=vals, deps=deps)
        raise Unsupported('load')

    def store(self, lv, v):
        if isinstance(lv, Cell):
            lv.v = v
            return
        if lv[0] == 'elem':
            p = lv[1]
            if isinstance(p, Out):
                p.put(v)
                return
            if p.off < 0 or p.off >= len(p.arr.elems):
                raise OutOfBounds('write of %s[%d] (size %d)' % (p.arr.name, p.off, len(p.arr.elems)))
            p.arr.elems[p.off] = v
            if p.off == 0 and getattr(p.arr, 'cell', None) is not None:
                p.arr.cell.v = v
            return
        if lv[0] == 'elems':
            self.split_on(lv[2].deps)
        raise Unsupported('store')

    def global_cell(self, fn, r):
        if not hasattr(self, '_globals'):
            self._globals = {}
        if r in self._globals:
            return self._globals[r]
        name = r.split(':', 1)[1]
        g = self.P.globals.get(name)
        if g is None:
            # static locals are emitted as globals keyed by qualified name; fall back on suffix
            base = name.split('@')[0]
            cands = [x for x in self.P.globals.values() if x['name'].endswith('::' + base) or x['name'] == base]
            g = cands[0] if cands else None
        if g is None:
            raise Unsupported('global %s has no initialiser' % r)
        v = self.eval_global(g)
        c = Cell(v)
        self._globals[r] = c
        return c

    def eval_global(self, g):
        nodes = g['nodes']

        def ev(i):
            n = nodes[i]
            if 'cv' in n:
                return AV.const(n['cv'])
            if n['k'] == 'StringLiteral':
                return Arr([AV.const(b) for b in n['s'].encode('latin-1')] + [AV.const(0)], g['name'])
            if n['k'] == 'InitListExpr':
                return Arr([ev(c) for c in n['ch']], g['name'])
            if n['ch']:
                return ev(n['ch'][0])
            raise Unsupported('global initialiser %s' % n['k'])
        return ev(g['init'])

    # ------------------------------------------------------------ expressions
    def rvalue(self, fn, i, env):
        v = self.eval(fn, i, env)
        if isinstance(v, Cell):
            return v.v
        if isinstance(v, tuple):
            return self.load(v)
        return v

    def eval(self, fn, i, env):
        self.steps += 1
        if self.steps > self.max_steps:
            raise Unsupported('step budget exceeded')
        n = fn.N(i)
        k = n['k']
        if 'cv' in n and k not in ('DeclRefExpr', 'MemberExpr'):
            return AV.const(n['cv'])
        if k in ('ParenExpr', 'ExprWithCleanups', 'MaterializeTemporaryExpr', 'CXXBindTemporaryExpr', 'ConstantExpr'):
            return self.eval(fn, n['ch'][0], env)
        if k == 'ImplicitCastExpr' or k in ('CStyleCastExpr', 'CXXStaticCastExpr', 'CXXFunctionalCastExpr', 'CXXReinterpretCastExpr', 'CXXConstCastExpr'):
            cast = n.get('cast')
            if cast == 'LValueToRValue':
                lv = self.lval(fn, n['ch'][0], env)
                v = self.load(lv)
                # element reads are typed by the expression
                if isinstance(v, AV):
                    return self.wrap(v, fn.type_of(n))
                return v
            if cast in ('ArrayToPointerDecay',):
                v = self.eval(fn, n['ch'][0], env)
                if isinstance(v, Cell):
                    v = v.v
                if isinstance(v, Arr):
                    return PV(v, 0)
                return v
            if cast in ('IntegralCast', 'IntegralToBoolean', 'BooleanToSignedIntegral'):
                v = self.rvalue(fn, n['ch'][0], env)
                return self.wrap(v, fn.type_of(n))
            if cast == 'PointerToBoolean':
                v = self.rvalue(fn, n['ch'][0], env)
                if isinstance(v, AV):
                    if v.is_const():
                        return AV.const(1 if v.lo != 0 else 0)      # null pointer constant / integer-valued pointer
                    raise Unsupported('pointer of unknown nullness at %s' % fn.loc(i))
                return AV.const(1)      # address of a modelled object
            if cast in ('NoOp', 'BitCast', 'FunctionToPointerDecay', 'UserDefinedConversion', 'ConstructorConversion', 'DerivedToBase', 'UncheckedDerivedToBase', 'BaseToDerived', 'NullToPointer'):
                return self.eval(fn, n['ch'][0], env)
            raise Unsupported('cast %s at %s' % (cast, fn.loc(i)))
        if k == 'DeclRefExpr':
            r = n['ref']
            if r.startswith('e:') and 'cv' in n:
                return AV.const(n['cv'])
            if r in env:
                return env[r]
            if 'cv' in n:
                return AV.const(n['cv'])
            if r.startswith(('g:', 'sv:')):
                return self.global_cell(fn, r)
            raise Unsupported('unbound %s at %s' % (r, fn.loc(i)))
        if k == 'StringLiteral':
            return Arr([AV.const(b) for b in n.get('s', '').encode('latin-1')] + [AV.const(0)], 'literal')
        if k == 'CharacterLiteral' or k == 'IntegerLiteral' or k == 'CXXBoolLiteralExpr':
            return AV.const(n.get('cv', 0))
        if k == 'UnaryOperator':
            op = n.get('op')
            if op in ('++', '--'):
                lv = self.lval(fn, n['ch'][0], env)
                old = self.load(lv)
                if isinstance(old, PV):
                    new = PV(old.arr, old.off + (1 if op == '++' else -1))
                elif isinstance(old, Out):
                    new = old
                else:
                    new = self.wrap(binop('+' if op == '++' else '-', old, AV.const(1)), fn.type_of(n))
                self.store(lv, new)
                return old if n.get('post') else new
            if op == '*':
                return ('elem', self.rvalue(fn, n['ch'][0], env))
            if op == '&':
                lv = self.eval(fn, n['ch'][0], env)
                if isinstance(lv, tuple) and lv[0] == 'elem':
                    return lv[1]
                if isinstance(lv, Cell) and isinstance(lv.v, Arr):
                    return PV(lv.v, 0)
                if isinstance(lv, Cell):
                    a = Arr([lv.v], 'addr')
                    a.cell = lv          # writes through the pointer reach the variable
                    return PV(a, 0)
                raise Unsupported('address-of at %s' % fn.loc(i))
            v = self.rvalue(fn, n['ch'][0], env)
            if op == '!':
                return AV.const(0 if self.truth(v) else 1)
            if op == '-':
                return self.wrap(binop('-', AV.const(0), v), fn.type_of(n))
            if op == '~':
                return self.wrap(binop('-', binop('-', AV.const(0), v), AV.const(1)), fn.type_of(n))
            if op == '+':
                return v
            raise Unsupported('unary %s' % op)
        if k in ('BinaryOperator', 'CompoundAssignOperator'):
            op = n.get('op')
            if op == '&&':
                if not self.truth(self.rvalue(fn, n['ch'][0], env)):
                    return AV.const(0)
                return AV.const(1 if self.truth(self.rvalue(fn, n['ch'][1], env)) else 0)
            if op == '||':
                if self.truth(self.rvalue(fn, n['ch'][0], env)):
                    return AV.const(1)
                return AV.const(1 if self.truth(self.rvalue(fn, n['ch'][1], env)) else 0)
            if op == ',':
                self.eval(fn, n['ch'][0], env)
                return self.eval(fn, n['ch'][1], env)
            if op == '=':
                v = self.rvalue(fn, n['ch'][1], env)
                lv = self.lval(fn, n['ch'][0], env)
                v = self.wrap(v, fn.type_of(fn.N(fn.strip(n['ch'][0]))))
                self.store(lv, v)
                return lv
            if op.endswith('=') and op not in ('==', '!=', '<=', '>='):
                lv = self.lval(fn, n['ch'][0], env)
                old = self.load(lv)
                r = self.rvalue(fn, n['ch'][1], env)
                if isinstance(old, PV):
                    if not r.is_const():
                        self.split_on(r.deps)
                    new = PV(old.arr, old.off + (r.lo if op == '+=' else -r.lo))
                else:
                    ct = n.get('ct')
                    new = binop(op[:-1], self.wrap(old, ct) if ct else old, self.wrap(r, ct) if ct else r)
                    if ct:
                        new = self.wrap(new, ct)
                    new = self.wrap(new, fn.type_of(fn.N(fn.strip(n['ch'][0]))))
                self.store(lv, new)
                return lv
            a = self.rvalue(fn, n['ch'][0], env)
            b = self.rvalue(fn, n['ch'][1], env)
            if op in ('<', '<=', '>', '>=', '==', '!='):
                if isinstance(a, PV) and isinstance(b, PV):
                    if a.arr is not b.arr:
                        raise Unsupported('comparison of pointers into different arrays')
                    return AV.const(1 if _pycmp(op, a.off, b.off) else 0)
                if isinstance(a, PV) or isinstance(b, PV):
                    pv, iv = (a, b) if isinstance(a, PV) else (b, a)
                    if isinstance(iv, AV) and iv.is_const() and iv.lo == 0:
                        return AV.const(1 if op == '!=' else 0)
                    raise Unsupported('pointer/int comparison')
                r = compare(op, a, b)
                if r is None:
                    self.split_on(a.deps | b.deps)
                return AV.const(1 if r else 0)
            if isinstance(a, PV) and isinstance(b, AV):
                if not b.is_const():
                    self.split_on(b.deps)
                return PV(a.arr, a.off + (b.lo if op == '+' else -b.lo))
            if isinstance(b, PV) and isinstance(a, AV) and op == '+':
                if not a.is_const():
                    self.split_on(a.deps)
                return PV(b.arr, b.off + a.lo)
            if isinstance(a, PV) and isinstance(b, PV) and op == '-':
                return AV.const(a.off - b.off)
            if isinstance(a, AV) and isinstance(b, AV):
                try:
                    r = binop(op, a, b)
                except Split as s:
                    self.split_on(s.idx)
                return self.wrap(r, fn.type_of(n))
            raise Unsupported('binary %s on %r %r at %s' % (op, a, b, fn.loc(i)))
        if k == 'ConditionalOperator':
            if self.truth(self.rvalue(fn, n['cond'], env)):
                return self.eval(fn, n['then'], env)
            return self.eval(fn, n['else'], env)
        if k == 'ArraySubscriptExpr':
            return self.lval(fn, i, env)
        if k == 'InitListExpr':
            return [self.rvalue(fn, c, env) for c in n['ch']]
        if k == 'ImplicitValueInitExpr':
            return AV.const(0)
        if k in CALL_KINDS:
            return self.eval_call(fn, i, env)
        if k == 'CXXThisExpr':
            return env.get('this')
        if k == 'MemberExpr':
            r = n.get('ref')
            if r in env:
                return env[r]
            if r in getattr(self, 'fields', {}):
                return self.fields[r]
            if 'cv' in n:
                return AV.const(n['cv'])
            raise Unsupported('member %s at %s' % (r, fn.loc(i)))
        if k == 'CXXDefaultArgExpr':
            return AV.const(n.get('cv', 0))
        if k == 'CXXNewExpr' and n.get('array'):
            # new T[n]: a fresh zero-filled array of n elements (n must be a point value in this box)
            cnt = None
            for c_ in n['ch']:
                v_ = self.rvalue(fn, c_, env)
                if isinstance(v_, AV):
                    cnt = v_
                    break
            if cnt is None:
                raise Unsupported('array new without a size at %s' % fn.loc(i))
            if not cnt.is_const():
                self.split_on(cnt.deps)
            if cnt.lo < 0 or cnt.lo > 65536:
                raise Unsupported('array new of %d elements at %s' % (cnt.lo, fn.loc(i)))
            return PV(Arr([AV.const(0) for _ in range(cnt.lo)], 'new'), 0)
        if k == 'CXXDeleteExpr':
            return None         # storage release has no value effect in this domain
        if k == 'CXXThrowExpr':
            raise _Return(('throw', fn.loc(i)))
        if k == 'UnaryExprOrTypeTraitExpr':
            return AV.const(n.get('cv', 0))
        raise Unsupported('expression %s at %s' % (k, fn.loc(i)))

    # ------------------------------------------------------------ calls / intrinsics
    def eval_call(self, fn, i, env):
        n = fn.N(i)
        k = n['k']
        cn = n.get('cn') or ''
        bcn = strip_targs(cn)
        sh = bcn.rsplit('::', 1)[-1]
        args = fn.args(i)
        hook = self.hooks.get(bcn) or self.hooks.get(cn)
        if hook:
            r = hook(self, fn, i, env)
            if r is not NotImplemented:
                return r
        if k == 'CallExpr' and not n.get('callee') and not cn and n.get('ch'):
            # indirect call: the callee expression must evaluate to a FnRef the rule supplied (a summary of the pointed-to function)
            try:
                tgt = self.rvalue(fn, n['ch'][0], env)
            except Unsupported:
                tgt = None
            if isinstance(tgt, FnRef):
                return tgt.hook(self, fn, i, env)
        if k == 'CXXOperatorCallExpr':
            op = n.get('op')
            objn = n['ch'][1]
            if op in ('+=',):
                o = self.rvalue(fn, objn, env)
                if isinstance(o, Out):
                    v = self.rvalue(fn, n['ch'][2], env)
                    self.emit(o, v)
                    return o
            if op == '=':
                lv = self.lval(fn, objn, env)
                if isinstance(lv, tuple) and lv[0] == 'elem' and isinstance(lv[1], Out):
                    self.emit(lv[1], self.rvalue(fn, n['ch'][2], env))
                    return lv
                cur = self.load(lv)
                if isinstance(cur, Out) or cur is None:
                    # output-iterator assignment *out = c  /  string assignment
                    v = self.rvalue(fn, n['ch'][2], env)
                    if isinstance(cur, Out):
                        if isinstance(lv, Cell) and 'insert_iterator' not in (fn.type_of(fn.N(fn.strip(objn))) or '') and 'ostream' not in (fn.type_of(fn.N(fn.strip(objn))) or ''):
                            cur.items = []
                        self.emit(cur, v)
                        return lv
                v = self.rvalue(fn, n['ch'][2], env)
                self.store(lv, v)
                return lv
            if op in ('*',) and len(n['ch']) == 2:
                o = self.rvalue(fn, objn, env)
                if isinstance(o, Out):
                    return Cell(o)
                return ('elem', o)
            if op in ('++', '--'):
                lv = self.lval(fn, objn, env)
                o = self.load(lv)
                if isinstance(o, Out):
                    return lv
                if isinstance(o, PV):
                    self.store(lv, PV(o.arr, o.off + (1 if op == '++' else -1)))
                    return o if len(n['ch']) > 2 else self.load(lv)
            if op == '[]':
                return self.lval(fn, i, env)
            if op in ('==', '!=', '<', '<=', '>', '>=') and len(n['ch']) == 3:
                a, b = self.rvalue(fn, n['ch'][1], env), self.rvalue(fn, n['ch'][2], env)
                if isinstance(a, PV) and isinstance(b, PV):
                    return AV.const(1 if _pycmp(op, a.off, b.off) else 0)
            if op in ('+', '-') and len(n['ch']) == 3:
                a, b = self.rvalue(fn, n['ch'][1], env), self.rvalue(fn, n['ch'][2], env)
                if isinstance(a, PV) and isinstance(b, AV):
                    if not b.is_const():
                        self.split_on(b.deps)
                    return PV(a.arr, a.off + (b.lo if op == '+' else -b.lo))
                if isinstance(a, PV) and isinstance(b, PV) and op == '-':
                    return AV.const(a.off - b.off)
            if op in ('+=', '-=') and len(n['ch']) == 3:
                lv = self.lval(fn, objn, env)
                a = self.load(lv)
                b = self.rvalue(fn, n['ch'][2], env)
                if isinstance(a, PV) and isinstance(b, AV):
                    if not b.is_const():
                        self.split_on(b.deps)
                    self.store(lv, PV(a.arr, a.off + (b.lo if op == '+=' else -b.lo)))
                    return lv
        if k == 'CXXMemberCallExpr':
            o = fn.obj(i)
            ov = self.rvalue(fn, o, env) if o is not None else None
            if isinstance(ov, Out):
                if sh in ('push_back', 'sputc', 'put'):
                    self.emit(ov, self.rvalue(fn, args[0], env))
                    return AV.const(1)
                if sh in ('append', 'sputn', 'write', 'assign'):
                    if sh == 'assign':
                        ov.items = []
                    a0 = self.rvalue(fn, args[0], env)
                    if len(args) >= 2 and fn.N(args[1])['k'] != 'CXXDefaultArgExpr':
                        a1 = self.rvalue(fn, args[1], env)
                        if isinstance(a0, PV) and isinstance(a1, AV):
                            if not a1.is_const():
                                self.split_on(a1.deps)
                            for j in range(a1.lo):
                                self.emit(ov, self.load(('elem', PV(a0.arr, a0.off + j))))
                            return a1
                        if isinstance(a0, PV) and isinstance(a1, PV):
                            for j in range(a0.off, a1.off):
                                self.emit(ov, self.load(('elem', PV(a0.arr, j))))
                            return ov
                    self.emit(ov, a0)
                    return ov
                if sh in ('reserve', 'clear', 'flush'):
                    if sh == 'clear':
                        ov.items = []
                    return ov
                if sh == 'size':
                    return AV.const(len(ov.items))
            if isinstance(ov, Arr):
                if sh in ('size', 'length'):
                    return AV.const(len(ov.elems) - (1 if ov.name.startswith('str:') else 0))
                if sh in ('c_str', 'data', 'begin'):
                    return PV(ov, 0)
                if sh == 'end':
                    return PV(ov, len(ov.elems) - (1 if ov.name.startswith('str:') else 0))
        if k in ('CXXConstructExpr', 'CXXTemporaryObjectExpr'):
            t = fn.type_of(n) or ''
            if 'insert_iterator' in t or 'ostreambuf_iterator' in t or 'ostream_iterator' in t:
                a = self.rvalue(fn, args[0], env) if args else None
                if isinstance(a, PV) and isinstance(a.arr.elems[0], Out):
                    return a.arr.elems[0]
                return a
            if t.replace('const ', '').startswith('std::basic_string'):
                if not args:
                    return Out('str')
                a0 = self.rvalue(fn, args[0], env)
                if isinstance(a0, (Out, Arr)):
                    return a0
            if len(args) == 1:
                return self.rvalue(fn, args[0], env)
            if not args:
                return self.default_value(fn, t, 'tmp')
        if bcn == '__builtin_expect' and args:
            return self.rvalue(fn, args[0], env)
        if bcn == 'strlen' and args:
            p = self.rvalue(fn, args[0], env)
            if isinstance(p, PV):
                for j in range(p.off, len(p.arr.elems)):
                    e = p.arr.elems[j]
                    if e.is_const() and e.lo == 0:
                        return AV.const(j - p.off)
                raise OutOfBounds('strlen over %s without terminator' % p.arr.name)
        if bcn in ('memcpy', '__builtin_memcpy', 'memmove', '__builtin_memmove') and len(args) == 3:
            pd, ps, cnt = self.rvalue(fn, args[0], env), self.rvalue(fn, args[1], env), self.rvalue(fn, args[2], env)
            if isinstance(pd, Arr):
                pd = PV(pd, 0)
            if isinstance(ps, Arr):
                ps = PV(ps, 0)
            if isinstance(pd, PV) and isinstance(ps, PV) and isinstance(cnt, AV):
                if not cnt.is_const():
                    self.split_on(cnt.deps)
                    raise Unsupported('memcpy of a non-constant count')
                if cnt.lo < 0:
                    raise OutOfBounds('memcpy with negative count %d' % cnt.lo)
                src = [self.load(('elem', PV(ps.arr, ps.off + j))) for j in range(cnt.lo)]
                for j, e in enumerate(src):
                    self.store(('elem', PV(pd.arr, pd.off + j)), e)
                return pd
        if bcn in ('memcmp', '__builtin_memcmp') and len(args) == 3:
            pa, pb, cnt = self.rvalue(fn, args[0], env), self.rvalue(fn, args[1], env), self.rvalue(fn, args[2], env)
            if isinstance(pa, PV) and isinstance(pb, PV) and isinstance(cnt, AV) and cnt.is_const():
                for j in range(cnt.lo):
                    ea, eb = self.load(('elem', PV(pa.arr, pa.off + j))), self.load(('elem', PV(pb.arr, pb.off + j)))
                    ua = AV(vals=[v & 0xFF for v in ea.vals], deps=ea.deps) if ea.vals is not None else None
                    ub = AV(vals=[v & 0xFF for v in eb.vals], deps=eb.deps) if eb.vals is not None else None
                    if ua is None or ub is None:
                        raise Split(_pick(ea.deps | eb.deps))
                    if ua.is_const() and ub.is_const():
                        if ua.lo != ub.lo:
                            return AV.const(-1 if ua.lo < ub.lo else 1)
                        continue
                    if not (ua.vals & ub.vals):
                        if ua.hi < ub.lo:
                            return AV.const(-1)
                        if ua.lo > ub.hi:
                            return AV.const(1)
                        return AV(vals=[-1, 1], deps=ea.deps | eb.deps)
                    raise Split(_pick(ea.deps | eb.deps))
                return AV.const(0)
        g = self.P.fns.get(n.get('callee'))
        if g is not None and g.body is not None:
            vals = []
            ov = n.get('ov') or []
            alist = args[1:] if (k == 'CXXOperatorCallExpr' and n.get('rec')) else args
            for a, pt in zip(alist, ov):
                if _is_mutable_ref(pt):
                    vals.append(self.lval_or_tmp(fn, a, env))
                else:
                    vals.append(self.rvalue(fn, a, env))
            return self.call_fn(g, vals)
        raise Unsupported('call to %s at %s' % (cn or '?', fn.loc(i)))

    def lval_or_tmp(self, fn, a, env):
        try:
            lv = self.lval(fn, a, env)
            if isinstance(lv, Cell):
                return lv
        except Unsupported:
            pass
        return Cell(self.rvalue(fn, a, env))

    def emit(self, out, v):
        if isinstance(v, Cell):
            v = v.v
        if isinstance(v, AV):
            out.put(v)
        elif isinstance(v, Arr):
            for e in v.elems[:-1] if (v.name == 'literal') else v.elems:
                out.put(e)
        elif isinstance(v, PV):
            # C string
            j = v.off
            while True:
                e = self.load(('elem', PV(v.arr, j)))
                if e.is_const() and e.lo == 0:
                    break
                out.put(e)
                j += 1
        elif isinstance(v, Out):
            out.items.extend(v.items)
        else:
            raise Unsupported('emit of %r' % (v,))


def _pycmp(op, x, y):
    return {'<': x < y, '<=': x <= y, '>': x > y, '>=': x >= y, '==': x == y, '!=': x != y}[op]


# ------------------------------------------------------------------------------------------
def _is_mutable_ref(pt):
    """`T &` with T not const at top level: `const char *&` is a mutable reference (to a pointer to const)"""
    pt = pt.strip()
    if not pt.endswith('&') or pt.endswith('&&'):
        return False
    t = pt[:-1].strip()
    if t.endswith('*'):
        return True
    if t.endswith('const'):
        return False
    return not t.startswith('const ')


def explore(P, run, boxes, max_boxes=200000):
    """run(interp) -> result on a box (may raise Split).  boxes: initial list of boxes (lists of (lo,hi)).
    yields (box, result); Unsupported / OutOfBounds propagate."""
    work = [list(b) for b in boxes]
    done = 0
    while work:
        box = work.pop()
        done += 1
        if done > max_boxes:
            raise AnalysisBroken('absint: box budget exceeded (%d)' % max_boxes)
        it = Interp(P, box)
        try:
            res = run(it)
        except OutOfBounds as e:
            if not hasattr(e, 'box'):
                e.box, e.loc = list(box), it.cur_loc
            raise
        except Split as s:
            idx = s.idx
            if not isinstance(idx, int):
                idx = max(idx, key=lambda d: box[d][1] - box[d][0])
            lo, hi = box[idx]
            if lo == hi:
                raise AnalysisBroken('absint: cannot refine a point box further (byte %d=%d)' % (idx, lo))
            mid = _aligned_mid(lo, hi)
            b1, b2 = list(box), list(box)
            b1[idx] = (lo, mid - 1)
            b2[idx] = (mid, hi)
            work.append(b2)
            work.append(b1)
            continue
        yield box, res, it


def _aligned_mid(lo, hi):
    """split point preferring the highest bit in which lo and hi differ"""
    x = lo ^ hi
    k = x.bit_length() - 1
    mid = (hi >> k) << k
    if mid <= lo:
        mid = (lo + hi + 1) // 2
    return mid
