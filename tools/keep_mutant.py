#!/usr/bin/env python3
"""store a confirmed sub-agent mutant:  tools/keep_mutant.py C05 /tmp/wt/C05-out/m1 C05-m1 "<needs>" """
import sys, os, shutil, json, re, subprocess
prop, out, name, needs = sys.argv[1:5]
also = sys.argv[5].split(',') if len(sys.argv) > 5 else []
dst = os.path.join('/verif/seeded', name)
os.makedirs(dst, exist_ok=True)
for f in os.listdir(out):
    if f.startswith('run_with') or f.startswith('run_without') or f.endswith('.log') and f != 'confirm.log':
        continue
    p = os.path.join(out, f)
    if os.path.isfile(p) and os.path.getsize(p) < 400000:
        shutil.copy(p, dst)
log = open(os.path.join(out, 'confirm.log'), errors='replace').read()
res = re.findall(r'^RESULT.*$', log, re.M)
files = re.findall(r'^\+\+\+ b/(.*)$', open(os.path.join(out, 'patch.diff')).read(), re.M)
meta = {'property': prop, 'also_check': also, 'name': name, 'files_changed': files, 'needs_to_manifest': needs,
        'confirmed_by': 'tools/confirm_mutant.sh + tools/confirm_baseline.sh in a scratch worktree (removed afterwards): clean build + demo passes; patch applies, builds, demo fails; '
                        'the 61 pinned tests pass with the patch (network tests that collided on fixed ports under concurrent runs were retried serially)',
        'confirm_results': res,
        'base_commit': subprocess.run(['git', '-C', '/repo', 'rev-parse', '--short', 'HEAD'], stdout=subprocess.PIPE).stdout.decode().strip()}
json.dump(meta, open(os.path.join(dst, 'meta.json'), 'w'), indent=1)
print('kept', dst, files)
