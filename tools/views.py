#!/usr/bin/env python3
"""debug aid: tools/views.py Cnn diff   -> violations of the check in the first view and in the flattened view, on a scratch copy"""
import sys, os, subprocess, tempfile, shutil
HERE = os.path.dirname(os.path.dirname(os.path.abspath(__file__)))
pid, diff = sys.argv[1], os.path.abspath(sys.argv[2])
tmp = tempfile.mkdtemp(prefix='cppcms-views-')
try:
    for d in ('src', 'private', 'cppcms', 'booster'):
        shutil.copytree(os.path.join('/repo', d), os.path.join(tmp, d), symlinks=True)
    subprocess.run(['patch', '-p1', '-s', '-d', tmp, '-i', diff], check=True)
    for name, extra in (('first', {'VERIF_NO_SECOND_VIEW': '1'}), ('flattened', {'VERIF_INLINE': '1'})):
        env = dict(os.environ, VERIF_REPO=tmp, VERIF_EVIDENCE_DIR=os.path.join(tmp, 'ev'), **extra)
        o = subprocess.run([os.path.join(HERE, 'check'), pid], env=env, stdout=subprocess.PIPE, stderr=subprocess.STDOUT).stdout.decode(errors='replace').replace(tmp, '/repo')
        print('==', name)
        print('\n'.join(l[:260] for l in o.splitlines() if ('[' in l and ': C' in l) or 'BROKEN' in l or l.startswith('OK') or 'Traceback' in l or 'Error' in l))
finally:
    shutil.rmtree(tmp, ignore_errors=True)
