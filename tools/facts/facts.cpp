// cppcms-facts: libTooling fact extractor (engine E1 of /verif/DESIGN.md).
//
// For one translation unit it writes a JSON file with, for every function
// *definition* whose file matches --include-re: identity, the type-resolved
// statement/expression tree, and the clang CFG (all sub-expressions, implicit
// and temporary destructors, no EH edges); plus class, enum and global facts.
// It never links or runs the code it reads.
#include "clang/AST/ASTConsumer.h"
#include "clang/AST/ASTContext.h"
#include "clang/AST/DeclTemplate.h"
#include "clang/AST/ExprCXX.h"
#include "clang/AST/RecursiveASTVisitor.h"
#include "clang/AST/StmtCXX.h"
#include "clang/Analysis/CFG.h"
#include "clang/Frontend/CompilerInstance.h"
#include "clang/Frontend/FrontendAction.h"
#include "clang/Tooling/CommonOptionsParser.h"
#include "clang/Tooling/Tooling.h"
#include "llvm/Support/CommandLine.h"
#include "llvm/Support/Regex.h"
#include "llvm/Support/raw_ostream.h"
#include <map>
#include <set>
#include <string>
#include <vector>

using namespace clang;
using namespace clang::tooling;

static llvm::cl::OptionCategory Cat("cppcms-facts");
static llvm::cl::opt<std::string> OutFile("o", llvm::cl::desc("output json"), llvm::cl::cat(Cat), llvm::cl::Required);
static llvm::cl::opt<std::string> IncludeRe("include-re", llvm::cl::desc("regex on the file of a function definition"),
                                             llvm::cl::cat(Cat), llvm::cl::init("^/repo/(src|private|cppcms|booster/lib)/"));
static llvm::cl::opt<std::string> RecordRe("record-re", llvm::cl::desc("regex on the file of class/enum/global facts"),
                                            llvm::cl::cat(Cat), llvm::cl::init("^/repo/(src|private|cppcms|booster)/"));

static std::string jesc(llvm::StringRef s) {
  std::string o;
  o.reserve(s.size() + 2);
  for (unsigned char c : s) {
    switch (c) {
    case '"': o += "\\\""; break;
    case '\\': o += "\\\\"; break;
    case '\n': o += "\\n"; break;
    case '\r': o += "\\r"; break;
    case '\t': o += "\\t"; break;
    default:
      if (c < 0x20 || c >= 0x7f) {
        char b[8];
        snprintf(b, sizeof b, "\\u%04x", c);
        o += b;
      } else
        o += (char)c;
    }
  }
  return o;
}
static std::string q(llvm::StringRef s) { return "\"" + jesc(s) + "\""; }

namespace {

struct Unit {
  ASTContext *Ctx = nullptr;
  PrintingPolicy PP{LangOptions()};
  std::map<const Decl *, int> declIds;
  std::map<std::string, int> typeIds;
  std::vector<std::string> types;
  std::vector<std::string> functions, records, enums, globals;
  std::set<const Decl *> seenFn, seenRec, seenEnum, seenGlob;
  std::unique_ptr<llvm::Regex> incRe, recRe;

  int declId(const Decl *D) {
    D = D->getCanonicalDecl();
    auto it = declIds.find(D);
    if (it != declIds.end()) return it->second;
    int n = declIds.size() + 1;
    declIds[D] = n;
    return n;
  }
  std::string typeStr(QualType T) {
    if (T.isNull()) return "<null>";
    return T.getCanonicalType().getAsString(PP);
  }
  int typeId(QualType T) {
    std::string s = typeStr(T);
    auto it = typeIds.find(s);
    if (it != typeIds.end()) return it->second;
    int n = types.size();
    types.push_back(s);
    typeIds[s] = n;
    return n;
  }
  std::string fileOf(SourceLocation L, unsigned *line = nullptr, unsigned *col = nullptr) {
    const SourceManager &SM = Ctx->getSourceManager();
    if (L.isInvalid()) return "";
    SourceLocation E = SM.getExpansionLoc(L);
    PresumedLoc P = SM.getPresumedLoc(E);
    if (P.isInvalid()) return "";
    if (line) *line = P.getLine();
    if (col) *col = P.getColumn();
    return P.getFilename();
  }
  std::string qualName(const NamedDecl *D) {
    std::string s;
    llvm::raw_string_ostream os(s);
    D->printQualifiedName(os, PP);
    os.flush();
    return s;
  }
  std::string recName(const CXXRecordDecl *RD) {
    if (isa<ClassTemplateSpecializationDecl>(RD)) return typeStr(Ctx->getRecordType(RD));
    return qualName(RD);
  }
  std::string funcId(const FunctionDecl *FD) {
    std::string s = qualName(FD);
    if (const TemplateArgumentList *TA = FD->getTemplateSpecializationArgs()) {
      s += "<";
      for (unsigned i = 0; i < TA->size(); i++) {
        if (i) s += ",";
        std::string a;
        llvm::raw_string_ostream os(a);
        TA->get(i).print(PP, os, true);
        os.flush();
        s += a;
      }
      s += ">";
    }
    s += "(";
    for (unsigned i = 0; i < FD->getNumParams(); i++) {
      if (i) s += ",";
      s += typeStr(FD->getParamDecl(i)->getType());
    }
    if (FD->isVariadic()) s += ",...";
    s += ")";
    if (auto *MD = dyn_cast<CXXMethodDecl>(FD))
      if (MD->isConst()) s += " const";
    if (auto *MD = dyn_cast<CXXMethodDecl>(FD))
      if (MD->getParent()->isLambda()) {
        unsigned l = 0;
        fileOf(MD->getParent()->getBeginLoc(), &l);
        s += "@" + std::to_string(l);
      }
    return s;
  }
  std::string declRef(const ValueDecl *D) {
    if (auto *P = dyn_cast<ParmVarDecl>(D)) return "p:" + P->getNameAsString() + "@" + std::to_string(declId(P));
    if (auto *F = dyn_cast<FieldDecl>(D)) return "f:" + qualName(F);
    if (auto *F = dyn_cast<IndirectFieldDecl>(D)) return "f:" + qualName(F);
    if (auto *F = dyn_cast<FunctionDecl>(D)) return "fn:" + funcId(F);
    if (auto *E = dyn_cast<EnumConstantDecl>(D)) return "e:" + qualName(E);
    if (auto *V = dyn_cast<VarDecl>(D)) {
      if (V->isLocalVarDecl() || V->isStaticLocal())
        return std::string(V->isStaticLocal() ? "sv:" : "v:") + V->getNameAsString() + "@" + std::to_string(declId(V));
      return "g:" + qualName(V);
    }
    if (auto *B = dyn_cast<BindingDecl>(D)) return "v:" + B->getNameAsString() + "@" + std::to_string(declId(B));
    return "d:" + D->getNameAsString();
  }
};

struct FnEmitter {
  Unit &U;
  std::vector<std::string> nodes;
  std::map<const Stmt *, int> ids;
  explicit FnEmitter(Unit &u) : U(u) {}

  static std::string ilist(const std::vector<int> &v) {
    std::string s = "[";
    for (size_t i = 0; i < v.size(); i++) {
      if (i) s += ",";
      s += std::to_string(v[i]);
    }
    return s + "]";
  }

  std::string calleeInfo(const FunctionDecl *FD) {
    std::string s = ",\"callee\":" + q(U.funcId(FD)) + ",\"cn\":" + q(U.qualName(FD));
    if (auto *MD = dyn_cast<CXXMethodDecl>(FD)) {
      if (MD->isVirtual()) s += ",\"virt\":1";
      if (MD->isStatic()) s += ",\"static\":1";
      s += ",\"rec\":" + q(U.recName(MD->getParent()));
    }
    if (FD->isNoReturn()) s += ",\"noret\":1";
    unsigned l = 0;
    std::string f = U.fileOf(FD->getLocation(), &l);
    s += ",\"cfile\":" + q(f) + ",\"cline\":" + std::to_string(l);
    s += ",\"ov\":[";
    for (unsigned i = 0; i < FD->getNumParams(); i++) {
      if (i) s += ",";
      s += q(U.typeStr(FD->getParamDecl(i)->getType()));
    }
    s += "]";
    return s;
  }

  int opt(const Stmt *S) { return S ? emit(S) : -1; }

  int emit(const Stmt *S) {
    auto it = ids.find(S);
    if (it != ids.end()) return it->second;
    int id = nodes.size();
    ids[S] = id;
    nodes.emplace_back();
    std::string o = "{\"k\":" + q(S->getStmtClassName());
    unsigned line = 0, col = 0;
    U.fileOf(S->getBeginLoc(), &line, &col);
    o += ",\"l\":" + std::to_string(line) + ",\"c\":" + std::to_string(col);
    std::vector<int> ch;

    if (auto *E = dyn_cast<Expr>(S)) {
      o += ",\"t\":" + std::to_string(U.typeId(E->getType()));
      if (E->isLValue()) o += ",\"lv\":1";
      if (!E->isValueDependent() && !E->isTypeDependent() && E->getType()->isIntegralOrEnumerationType() && !isa<InitListExpr>(E)) {
        Expr::EvalResult R;
        if (E->EvaluateAsInt(R, *U.Ctx, Expr::SE_NoSideEffects)) {
          llvm::SmallString<32> sv;
          R.Val.getInt().toString(sv, 10);
          o += ",\"cv\":" + std::string(sv.str());
        }
      }
    }

    if (auto *D = dyn_cast<DeclRefExpr>(S)) {
      o += ",\"ref\":" + q(U.declRef(D->getDecl()));
      if (D->refersToEnclosingVariableOrCapture()) o += ",\"cap\":1";
    } else if (auto *M = dyn_cast<MemberExpr>(S)) {
      o += ",\"ref\":" + q(U.declRef(M->getMemberDecl()));
      if (M->isArrow()) o += ",\"arrow\":1";
    } else if (auto *C = dyn_cast<CallExpr>(S)) {
      if (const FunctionDecl *FD = C->getDirectCallee()) o += calleeInfo(FD);
      if (isa<CXXMemberCallExpr>(C)) {
        o += ",\"mc\":1";
      } else if (auto *OC = dyn_cast<CXXOperatorCallExpr>(C)) {
        o += ",\"op\":" + q(getOperatorSpelling(OC->getOperator()));
      }
    } else if (auto *C = dyn_cast<CXXConstructExpr>(S)) {
      o += calleeInfo(C->getConstructor());
      if (C->isElidable()) o += ",\"elide\":1";
    } else if (auto *N = dyn_cast<CXXNewExpr>(S)) {
      if (N->isArray()) o += ",\"array\":1";
      o += ",\"nt\":" + q(U.typeStr(N->getAllocatedType()));
    } else if (auto *D = dyn_cast<CXXDeleteExpr>(S)) {
      if (D->isArrayForm()) o += ",\"array\":1";
    } else if (auto *UO = dyn_cast<UnaryOperator>(S)) {
      o += ",\"op\":" + q(UnaryOperator::getOpcodeStr(UO->getOpcode()));
      if (UO->isPostfix()) o += ",\"post\":1";
    } else if (auto *BO = dyn_cast<BinaryOperator>(S)) {
      o += ",\"op\":" + q(BO->getOpcodeStr());
      if (auto *CA = dyn_cast<CompoundAssignOperator>(BO))
        o += ",\"ct\":" + q(U.typeStr(CA->getComputationResultType()));
    } else if (auto *IL = dyn_cast<IntegerLiteral>(S)) {
      (void)IL;
    } else if (auto *CL = dyn_cast<CharacterLiteral>(S)) {
      (void)CL;
    } else if (auto *BL = dyn_cast<CXXBoolLiteralExpr>(S)) {
      (void)BL;
    } else if (auto *FL = dyn_cast<FloatingLiteral>(S)) {
      o += ",\"fv\":" + q(std::to_string(FL->getValueAsApproximateDouble()));
    } else if (auto *SL = dyn_cast<StringLiteral>(S)) {
      if (SL->getCharByteWidth() == 1) {
        o += ",\"s\":" + q(SL->getBytes()) + ",\"sl\":" + std::to_string(SL->getByteLength());
      }
    } else if (auto *CE = dyn_cast<CastExpr>(S)) {
      o += ",\"cast\":" + q(CE->getCastKindName());
      if (auto *EC = dyn_cast<ExplicitCastExpr>(CE)) o += ",\"tw\":" + q(U.typeStr(EC->getTypeAsWritten()));
    } else if (auto *DS = dyn_cast<DeclStmt>(S)) {
      o += ",\"decls\":[";
      bool first = true;
      for (const Decl *D : DS->decls()) {
        if (auto *V = dyn_cast<VarDecl>(D)) {
          if (!first) o += ",";
          first = false;
          o += "{\"ref\":" + q(U.declRef(V)) + ",\"name\":" + q(V->getNameAsString()) + ",\"t\":" + std::to_string(U.typeId(V->getType()));
          if (V->getType()->isReferenceType()) o += ",\"isref\":1";
          if (V->hasInit()) {
            int c = emit(V->getInit());
            o += ",\"init\":" + std::to_string(c);
            ch.push_back(c);
          }
          o += "}";
        }
      }
      o += "]";
    } else if (auto *TT = dyn_cast<UnaryExprOrTypeTraitExpr>(S)) {
      o += ",\"trait\":" + q(getTraitSpelling(TT->getKind()));
      if (TT->isArgumentType()) o += ",\"at\":" + q(U.typeStr(TT->getArgumentType()));
    } else if (auto *I = dyn_cast<IfStmt>(S)) {
      o += ",\"init\":" + std::to_string(opt(I->getInit())) + ",\"cond\":" + std::to_string(opt(I->getCond())) +
           ",\"then\":" + std::to_string(opt(I->getThen())) + ",\"else\":" + std::to_string(opt(I->getElse()));
      if (I->getConditionVariableDeclStmt()) o += ",\"cvar\":" + std::to_string(emit(I->getConditionVariableDeclStmt()));
    } else if (auto *W = dyn_cast<WhileStmt>(S)) {
      o += ",\"cond\":" + std::to_string(opt(W->getCond())) + ",\"body\":" + std::to_string(opt(W->getBody()));
      if (W->getConditionVariableDeclStmt()) o += ",\"cvar\":" + std::to_string(emit(W->getConditionVariableDeclStmt()));
    } else if (auto *Dd = dyn_cast<DoStmt>(S)) {
      o += ",\"body\":" + std::to_string(opt(Dd->getBody())) + ",\"cond\":" + std::to_string(opt(Dd->getCond()));
    } else if (auto *F = dyn_cast<ForStmt>(S)) {
      o += ",\"init\":" + std::to_string(opt(F->getInit())) + ",\"cond\":" + std::to_string(opt(F->getCond())) +
           ",\"inc\":" + std::to_string(opt(F->getInc())) + ",\"body\":" + std::to_string(opt(F->getBody()));
      if (F->getConditionVariableDeclStmt()) o += ",\"cvar\":" + std::to_string(emit(F->getConditionVariableDeclStmt()));
    } else if (auto *FR = dyn_cast<CXXForRangeStmt>(S)) {
      o += ",\"range\":" + std::to_string(opt(FR->getRangeInit())) + ",\"var\":" + std::to_string(opt(FR->getLoopVarStmt())) +
           ",\"body\":" + std::to_string(opt(FR->getBody()));
    } else if (auto *SW = dyn_cast<SwitchStmt>(S)) {
      o += ",\"cond\":" + std::to_string(opt(SW->getCond())) + ",\"body\":" + std::to_string(opt(SW->getBody()));
    } else if (auto *CS = dyn_cast<CaseStmt>(S)) {
      o += ",\"lhs\":" + std::to_string(opt(CS->getLHS())) + ",\"rhs\":" + std::to_string(opt(CS->getRHS())) +
           ",\"sub\":" + std::to_string(opt(CS->getSubStmt()));
    } else if (auto *DFS = dyn_cast<DefaultStmt>(S)) {
      o += ",\"sub\":" + std::to_string(opt(DFS->getSubStmt()));
    } else if (auto *CO = dyn_cast<ConditionalOperator>(S)) {
      o += ",\"cond\":" + std::to_string(opt(CO->getCond())) + ",\"then\":" + std::to_string(opt(CO->getTrueExpr())) +
           ",\"else\":" + std::to_string(opt(CO->getFalseExpr()));
    } else if (auto *TS = dyn_cast<CXXTryStmt>(S)) {
      o += ",\"body\":" + std::to_string(opt(TS->getTryBlock())) + ",\"handlers\":[";
      for (unsigned i = 0; i < TS->getNumHandlers(); i++) {
        if (i) o += ",";
        o += std::to_string(emit(TS->getHandler(i)));
      }
      o += "]";
    } else if (auto *CT = dyn_cast<CXXCatchStmt>(S)) {
      o += ",\"ctype\":" + q(CT->getExceptionDecl() ? U.typeStr(CT->getCaughtType()) : std::string("..."));
      if (CT->getExceptionDecl() && CT->getExceptionDecl()->getIdentifier())
        o += ",\"cvarref\":" + q(U.declRef(CT->getExceptionDecl()));
      o += ",\"body\":" + std::to_string(opt(CT->getHandlerBlock()));
    } else if (auto *LE = dyn_cast<LambdaExpr>(S)) {
      o += ",\"lambda\":" + q(U.funcId(LE->getCallOperator())) + ",\"caps\":[";
      bool first = true;
      for (const LambdaCapture &C : LE->captures()) {
        if (!first) o += ",";
        first = false;
        if (C.capturesThis())
          o += "{\"this\":1}";
        else if (C.capturesVariable())
          o += "{\"ref\":" + q(U.declRef(C.getCapturedVar())) + ",\"byref\":" + (C.getCaptureKind() == LCK_ByRef ? "1" : "0") + "}";
        else
          o += "{}";
      }
      o += "]";
    } else if (auto *TE = dyn_cast<CXXTemporaryObjectExpr>(S)) {
      (void)TE;
    } else if (auto *G = dyn_cast<GotoStmt>(S)) {
      o += ",\"label\":" + q(G->getLabel()->getNameAsString());
    } else if (auto *L = dyn_cast<LabelStmt>(S)) {
      o += ",\"label\":" + q(L->getName());
    } else if (auto *DI = dyn_cast<CXXDefaultInitExpr>(S)) {
      (void)DI;
    }

    if (isa<LambdaExpr>(S)) {
      // capture initialisers only; the body is a separate function
      for (const Expr *I : cast<LambdaExpr>(S)->capture_inits())
        if (I) ch.push_back(emit(I));
    } else if (!isa<DeclStmt>(S)) {
      for (const Stmt *C : S->children())
        if (C) ch.push_back(emit(C));
    }
    o += ",\"ch\":" + ilist(ch) + "}";
    nodes[id] = o;
    return id;
  }
};

struct Visitor : RecursiveASTVisitor<Visitor> {
  Unit &U;
  explicit Visitor(Unit &u) : U(u) {}
  bool shouldVisitTemplateInstantiations() const { return true; }
  bool shouldVisitImplicitCode() const { return false; }

  bool fileOk(SourceLocation L, llvm::Regex &R, std::string &file, unsigned &line) {
    file = U.fileOf(L, &line);
    if (file.empty()) return false;
    return R.match(file);
  }

  void emitFunction(const FunctionDecl *FD) {
    if (!FD->doesThisDeclarationHaveABody()) return;
    if (FD->isDependentContext()) return;
    if (FD->isImplicit() && !(isa<CXXMethodDecl>(FD) && cast<CXXMethodDecl>(FD)->getParent()->isLambda())) return;
    if (FD->isDefaulted()) return;
    std::string file;
    unsigned line = 0;
    if (!fileOk(FD->getLocation(), *U.incRe, file, line)) return;
    if (!U.seenFn.insert(FD).second) return;
    const Stmt *Body = FD->getBody();
    if (!Body) return;

    FnEmitter E(U);
    std::string o = "{\"id\":" + q(U.funcId(FD)) + ",\"name\":" + q(U.qualName(FD)) + ",\"short\":" + q(FD->getNameAsString());
    unsigned endl = 0;
    U.fileOf(FD->getEndLoc(), &endl);
    o += ",\"file\":" + q(file) + ",\"line\":" + std::to_string(line) + ",\"endline\":" + std::to_string(endl);
    o += ",\"ret\":" + q(U.typeStr(FD->getReturnType()));
    std::string kind = "function";
    if (auto *MD = dyn_cast<CXXMethodDecl>(FD)) {
      kind = "method";
      if (isa<CXXConstructorDecl>(MD)) kind = "ctor";
      else if (isa<CXXDestructorDecl>(MD)) kind = "dtor";
      else if (isa<CXXConversionDecl>(MD)) kind = "conversion";
      if (MD->getParent()->isLambda()) kind = "lambda";
      o += ",\"record\":" + q(U.recName(MD->getParent()));
      if (MD->isConst()) o += ",\"const\":1";
      if (MD->isStatic()) o += ",\"static\":1";
      if (MD->isVirtual()) {
        o += ",\"virtual\":1,\"overrides\":[";
        bool first = true;
        for (const CXXMethodDecl *OM : MD->overridden_methods()) {
          if (!first) o += ",";
          first = false;
          o += q(U.funcId(OM));
        }
        o += "]";
      }
    }
    o += ",\"kind\":" + q(kind);
    if (FD->isTemplateInstantiation()) {
      o += ",\"tinst\":1";
    }
    o += ",\"params\":[";
    for (unsigned i = 0; i < FD->getNumParams(); i++) {
      const ParmVarDecl *P = FD->getParamDecl(i);
      if (i) o += ",";
      o += "{\"ref\":" + q(U.declRef(P)) + ",\"name\":" + q(P->getNameAsString()) + ",\"t\":" + std::to_string(U.typeId(P->getType())) + "}";
    }
    o += "]";
    // constructor initialisers
    if (auto *CD = dyn_cast<CXXConstructorDecl>(FD)) {
      o += ",\"inits\":[";
      bool first = true;
      for (const CXXCtorInitializer *I : CD->inits()) {
        if (!I->getInit()) continue;
        if (!first) o += ",";
        first = false;
        o += "{";
        if (I->isAnyMemberInitializer() && I->getAnyMember())
          o += "\"field\":" + q("f:" + U.qualName(I->getAnyMember())) + ",";
        else if (I->isBaseInitializer())
          o += "\"base\":" + q(U.typeStr(QualType(I->getBaseClass(), 0))) + ",";
        o += "\"written\":" + std::string(I->isWritten() ? "1" : "0") + ",";
        o += "\"n\":" + std::to_string(E.emit(I->getInit())) + "}";
      }
      o += "]";
    }
    int body = E.emit(Body);
    o += ",\"body\":" + std::to_string(body);

    // CFG
    CFG::BuildOptions BO;
    BO.setAllAlwaysAdd();
    BO.AddImplicitDtors = true;
    BO.AddTemporaryDtors = true;
    BO.AddInitializers = true;
    BO.AddEHEdges = false;
    BO.PruneTriviallyFalseEdges = false;
    std::unique_ptr<CFG> G = CFG::buildCFG(FD, const_cast<Stmt *>(Body), U.Ctx, BO);
    std::string cfg = "null";
    if (G) {
      cfg = "{\"entry\":" + std::to_string(G->getEntry().getBlockID()) + ",\"exit\":" + std::to_string(G->getExit().getBlockID()) + ",\"blocks\":[";
      bool firstb = true;
      for (const CFGBlock *B : *G) {
        if (!firstb) cfg += ",";
        firstb = false;
        cfg += "{\"id\":" + std::to_string(B->getBlockID()) + ",\"elems\":[";
        bool firste = true;
        for (const CFGElement &El : *B) {
          std::string e;
          if (auto CS = El.getAs<CFGStmt>()) {
            e = "{\"n\":" + std::to_string(E.emit(CS->getStmt())) + "}";
          } else if (auto CI = El.getAs<CFGInitializer>()) {
            const CXXCtorInitializer *I = CI->getInitializer();
            e = "{\"init\":1";
            if (I->isAnyMemberInitializer() && I->getAnyMember()) e += ",\"field\":" + q("f:" + U.qualName(I->getAnyMember()));
            if (I->getInit()) e += ",\"n\":" + std::to_string(E.emit(I->getInit()));
            e += "}";
          } else if (auto AD = El.getAs<CFGAutomaticObjDtor>()) {
            e = "{\"dtor\":" + q(U.declRef(AD->getVarDecl())) + ",\"t\":" + std::to_string(U.typeId(AD->getVarDecl()->getType()));
            if (AD->getTriggerStmt()) {
              unsigned l = 0;
              U.fileOf(AD->getTriggerStmt()->getEndLoc(), &l);
              e += ",\"l\":" + std::to_string(l);
            }
            e += "}";
          } else if (auto TD = El.getAs<CFGTemporaryDtor>()) {
            e = "{\"tmpdtor\":" + std::to_string(E.emit(TD->getBindTemporaryExpr())) + ",\"t\":" +
                std::to_string(U.typeId(TD->getBindTemporaryExpr()->getType())) + "}";
          } else if (El.getAs<CFGBaseDtor>()) {
            e = "{\"basedtor\":1}";
          } else if (auto MDt = El.getAs<CFGMemberDtor>()) {
            e = "{\"memberdtor\":" + q("f:" + U.qualName(MDt->getFieldDecl())) + "}";
          } else if (auto DD = El.getAs<CFGDeleteDtor>()) {
            e = "{\"deletedtor\":" + std::to_string(E.emit(DD->getDeleteExpr())) + "}";
          } else {
            e = "{\"other\":" + std::to_string((int)El.getKind()) + "}";
          }
          if (!firste) cfg += ",";
          firste = false;
          cfg += e;
        }
        cfg += "]";
        if (const Stmt *T = B->getTerminatorStmt()) {
          cfg += ",\"term\":" + std::to_string(E.emit(T));
          if (B->getTerminator().isTemporaryDtorsBranch()) cfg += ",\"tdbranch\":1";
        }
        if (const Stmt *TC = B->getTerminatorCondition()) cfg += ",\"tcond\":" + std::to_string(E.emit(TC));
        if (const Stmt *L = B->getLabel()) cfg += ",\"label\":" + std::to_string(E.emit(L));
        cfg += ",\"succ\":[";
        bool firsts = true;
        for (auto I = B->succ_begin(); I != B->succ_end(); ++I) {
          if (!firsts) cfg += ",";
          firsts = false;
          if (const CFGBlock *SB = I->getReachableBlock())
            cfg += std::to_string(SB->getBlockID());
          else if (const CFGBlock *UB = I->getPossiblyUnreachableBlock())
            cfg += "-" + std::to_string(UB->getBlockID() + 1);  // unreachable edge, encoded negative
          else
            cfg += "null";
        }
        cfg += "]}";
      }
      cfg += "]}";
    }
    o += ",\"cfg\":" + cfg;
    o += ",\"nodes\":[";
    for (size_t i = 0; i < E.nodes.size(); i++) {
      if (i) o += ",";
      o += E.nodes[i];
    }
    o += "]}";
    U.functions.push_back(o);
  }

  bool VisitFunctionDecl(FunctionDecl *FD) {
    emitFunction(FD);
    return true;
  }
  bool VisitLambdaExpr(LambdaExpr *LE) {
    if (LE->getCallOperator() && !LE->getCallOperator()->isDependentContext()) emitFunction(LE->getCallOperator());
    return true;
  }

  bool VisitCXXRecordDecl(CXXRecordDecl *RD) {
    if (!RD->isThisDeclarationADefinition() || RD->isDependentContext() || RD->isLambda()) return true;
    std::string file;
    unsigned line = 0;
    if (!fileOk(RD->getLocation(), *U.recRe, file, line)) return true;
    if (!U.seenRec.insert(RD).second) return true;
    std::string o = "{\"name\":" + q(U.recName(RD)) + ",\"file\":" + q(file) + ",\"line\":" + std::to_string(line);
    o += ",\"kind\":" + q(RD->getKindName());
    if (isa<ClassTemplateSpecializationDecl>(RD)) o += ",\"tinst\":1";
    o += ",\"bases\":[";
    bool first = true;
    for (const CXXBaseSpecifier &B : RD->bases()) {
      if (!first) o += ",";
      first = false;
      const CXXRecordDecl *BD = B.getType()->getAsCXXRecordDecl();
      o += q(BD ? U.recName(BD) : U.typeStr(B.getType()));
    }
    o += "],\"fields\":[";
    first = true;
    for (const FieldDecl *F : RD->fields()) {
      if (!first) o += ",";
      first = false;
      o += "{\"ref\":" + q("f:" + U.qualName(F)) + ",\"name\":" + q(F->getNameAsString()) + ",\"type\":" + q(U.typeStr(F->getType()));
      if (F->isBitField()) o += ",\"bits\":" + std::to_string(F->getBitWidthValue(*U.Ctx));
      unsigned fl = 0;
      U.fileOf(F->getLocation(), &fl);
      o += ",\"line\":" + std::to_string(fl) + "}";
    }
    o += "],\"methods\":[";
    first = true;
    for (const CXXMethodDecl *M : RD->methods()) {
      if (M->isImplicit()) continue;
      if (!first) o += ",";
      first = false;
      o += "{\"id\":" + q(U.funcId(M)) + ",\"short\":" + q(M->getNameAsString());
      if (M->isVirtual()) {
        o += ",\"virtual\":1,\"overrides\":[";
        bool f2 = true;
        for (const CXXMethodDecl *OM : M->overridden_methods()) {
          if (!f2) o += ",";
          f2 = false;
          o += q(U.funcId(OM));
        }
        o += "]";
      }
      if (M->isPure()) o += ",\"pure\":1";
      o += "}";
    }
    o += "]}";
    U.records.push_back(o);
    return true;
  }

  bool VisitEnumDecl(EnumDecl *ED) {
    if (!ED->isThisDeclarationADefinition()) return true;
    std::string file;
    unsigned line = 0;
    if (!fileOk(ED->getLocation(), *U.recRe, file, line)) return true;
    if (ED->isDependentContext()) return true;
    if (!U.seenEnum.insert(ED).second) return true;
    std::string ename = U.qualName(ED);
    if (const TypedefNameDecl *TD = ED->getTypedefNameForAnonDecl()) ename = U.qualName(TD);
    std::string o = "{\"name\":" + q(ename) + ",\"file\":" + q(file) + ",\"line\":" + std::to_string(line) + ",\"enumerators\":[";
    bool first = true;
    for (const EnumConstantDecl *E : ED->enumerators()) {
      if (!first) o += ",";
      first = false;
      llvm::SmallString<32> sv;
      E->getInitVal().toString(sv, 10);
      o += "{\"name\":" + q(E->getNameAsString()) + ",\"ref\":" + q("e:" + U.qualName(E)) + ",\"value\":" + std::string(sv.str()) + "}";
    }
    o += "]}";
    U.enums.push_back(o);
    return true;
  }

  bool VisitVarDecl(VarDecl *VD) {
    if (!VD->hasGlobalStorage() || !VD->hasInit() || isa<ParmVarDecl>(VD)) return true;
    if (VD->isLocalVarDecl() && !VD->isStaticLocal()) return true;
    if (VD->getDeclContext()->isDependentContext()) return true;
    if (VD->getInit()->isValueDependent() || VD->getInit()->isTypeDependent()) return true;
    std::string file;
    unsigned line = 0;
    if (!fileOk(VD->getLocation(), *U.recRe, file, line)) return true;
    if (!U.seenGlob.insert(VD).second) return true;
    FnEmitter E(U);
    int n = E.emit(VD->getInit());
    std::string o = "{\"ref\":" + q(U.declRef(VD)) + ",\"name\":" + q(U.qualName(VD)) + ",\"file\":" + q(file) + ",\"line\":" + std::to_string(line) +
                    ",\"type\":" + q(U.typeStr(VD->getType())) + ",\"init\":" + std::to_string(n) + ",\"nodes\":[";
    for (size_t i = 0; i < E.nodes.size(); i++) {
      if (i) o += ",";
      o += E.nodes[i];
    }
    o += "]}";
    U.globals.push_back(o);
    return true;
  }
};

struct Consumer : ASTConsumer {
  std::string mainFile;
  explicit Consumer(std::string f) : mainFile(std::move(f)) {}
  void HandleTranslationUnit(ASTContext &Ctx) override {
    if (Ctx.getDiagnostics().hasErrorOccurred()) {
      llvm::errs() << "cppcms-facts: parse errors in " << mainFile << "\n";
      return;  // no output file => the driver reports ANALYSIS-BROKEN
    }
    Unit U;
    U.Ctx = &Ctx;
    U.PP = PrintingPolicy(Ctx.getLangOpts());
    U.PP.SuppressTagKeyword = true;
    U.PP.Bool = true;
    U.PP.SuppressUnwrittenScope = false;
    U.PP.AnonymousTagLocations = false;
    U.incRe.reset(new llvm::Regex(IncludeRe));
    U.recRe.reset(new llvm::Regex(RecordRe));
    Visitor V(U);
    V.TraverseDecl(Ctx.getTranslationUnitDecl());
    std::error_code EC;
    llvm::raw_fd_ostream OS(OutFile, EC);
    if (EC) {
      llvm::errs() << "cannot write " << OutFile << "\n";
      return;
    }
    OS << "{\"unit\":" << q(mainFile) << ",\"types\":[";
    for (size_t i = 0; i < U.types.size(); i++) {
      if (i) OS << ",";
      OS << q(U.types[i]);
    }
    auto dump = [&](const char *name, const std::vector<std::string> &v) {
      OS << "],\n\"" << name << "\":[";
      for (size_t i = 0; i < v.size(); i++) {
        if (i) OS << ",\n";
        OS << v[i];
      }
    };
    dump("records", U.records);
    dump("enums", U.enums);
    dump("globals", U.globals);
    dump("functions", U.functions);
    OS << "]}\n";
  }
};

struct Action : ASTFrontendAction {
  std::unique_ptr<ASTConsumer> CreateASTConsumer(CompilerInstance &, llvm::StringRef File) override {
    return std::make_unique<Consumer>(File.str());
  }
};

}  // namespace

int main(int argc, const char **argv) {
  auto Opts = CommonOptionsParser::create(argc, argv, Cat);
  if (!Opts) {
    llvm::errs() << llvm::toString(Opts.takeError()) << "\n";
    return 2;
  }
  ClangTool Tool(Opts->getCompilations(), Opts->getSourcePathList());
  int rc = Tool.run(newFrontendActionFactory<Action>().get());
  return rc ? 2 : 0;
}
