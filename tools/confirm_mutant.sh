#!/bin/bash
# confirm a sub-agent's mutant in its scratch worktree:  tools/confirm_mutant.sh <worktree> <outdir(m1)> 
# 1. clean tree builds, demo passes  2. patch applies, builds, demo FAILS, pinned suite passes  3. reverted
WT=$1; OUT=$2; LOG=$OUT/confirm.log
exec >"$LOG" 2>&1
set -x
cd "$WT" || exit 2
git -C "$WT" checkout -- . ; git -C "$WT" status --short | grep -v '^??'
ninja -C "$WT/_build" -j6 >/dev/null 2>&1 || { echo "RESULT clean build failed"; exit 2; }
bash "$OUT/run_demo.sh" "$WT/_build" "$WT"; CLEAN=$?
git -C "$WT" apply "$OUT/patch.diff" || { echo "RESULT patch does not apply"; exit 2; }
ninja -C "$WT/_build" -j6 >/dev/null 2>&1 || { echo "RESULT mutant build failed"; git -C "$WT" checkout -- .; exit 2; }
bash "$OUT/run_demo.sh" "$WT/_build" "$WT"; MUT=$?
/tmp/wt/isolated.sh /tmp/wt/run_baseline.sh "$WT/_build"; BASE=$?
if [ $BASE -ne 0 ]; then sleep 5; /tmp/wt/isolated.sh /tmp/wt/run_baseline.sh "$WT/_build"; BASE=$?; fi
git -C "$WT" checkout -- .
ninja -C "$WT/_build" -j6 >/dev/null 2>&1
echo "RESULT clean_demo=$CLEAN mutant_demo=$MUT baseline=$BASE"
