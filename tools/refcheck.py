#!/usr/bin/env python3
"""false-alarm test: apply behaviour-preserving refactoring diffs to /repo one at a time, run every quick check, restore.
   tools/refcheck.py /tmp/wt/RA-out/r1.diff ...     prints exit codes != 0"""
import sys, os, subprocess, tempfile, shutil, json
from concurrent.futures import ThreadPoolExecutor
HERE = os.path.dirname(os.path.dirname(os.path.abspath(__file__)))
ids = [c['property_id'] for c in json.load(open(os.path.join(HERE, 'MANIFEST.json')))['checks']]
dirty = subprocess.run(['git', '-C', '/repo', 'status', '--porcelain', '--untracked-files=no'], stdout=subprocess.PIPE).stdout.decode().strip()
if dirty:
    print('refusing: /repo has uncommitted changes'); sys.exit(2)
for diff in [os.path.abspath(x) for x in sys.argv[1:]]:
    ev = tempfile.mkdtemp(prefix='refcheck-')
    try:
        r = subprocess.run(['git', '-C', '/repo', 'apply', diff])
        if r.returncode != 0:
            print(diff, 'DOES NOT APPLY'); continue
        env = dict(os.environ, VERIF_EVIDENCE_DIR=ev)
        def one(p):
            o = subprocess.run([os.path.join(HERE, 'check'), p], env=env, stdout=subprocess.PIPE, stderr=subprocess.STDOUT)
            return p, o.returncode, o.stdout.decode(errors='replace')
        with ThreadPoolExecutor(max_workers=8) as ex:
            res = list(ex.map(one, ids))
        bad = [(p, rc, out) for p, rc, out in res if rc != 0]
        print('%s: %s' % (diff, 'all 20 checks silent' if not bad else ''))
        for p, rc, out in bad:
            lines = [l for l in out.splitlines() if ('[' in l and ': C' in l) or 'BROKEN' in l][:3]
            print('   %s exit=%d %s' % (p, rc, ' | '.join(l[:230] for l in lines)))
    finally:
        subprocess.run(['git', '-C', '/repo', 'checkout', '--', '.'])
        shutil.rmtree(ev, ignore_errors=True)
