#!/usr/bin/env python3
"""false-alarm / detection test on scratch copies of the current sources (never touches /repo):
   tools/refcheck.py [--only Cnn[,Cmm]] diff...    applies each diff to a private copy (patch -p1), runs the quick checks
   against it (VERIF_REPO), prints the checks that do not exit 0."""
import sys, os, subprocess, tempfile, shutil, json
from concurrent.futures import ThreadPoolExecutor
HERE = os.path.dirname(os.path.dirname(os.path.abspath(__file__)))
ids = [c['property_id'] for c in json.load(open(os.path.join(HERE, 'MANIFEST.json')))['checks']]
args = sys.argv[1:]
if args and args[0] == '--only':
    ids = args[1].split(',')
    args = args[2:]


def one_diff(diff):
    tmp = tempfile.mkdtemp(prefix='cppcms-refcheck-')
    try:
        for d in ('src', 'private', 'cppcms', 'booster'):
            shutil.copytree(os.path.join('/repo', d), os.path.join(tmp, d), symlinks=True)
        r = subprocess.run(['patch', '-p1', '-s', '-d', tmp, '-i', diff], stdout=subprocess.PIPE, stderr=subprocess.STDOUT)
        if r.returncode != 0:
            return '%s DOES NOT APPLY: %s' % (diff, r.stdout.decode()[:200])
        env = dict(os.environ, VERIF_REPO=tmp, VERIF_EVIDENCE_DIR=os.path.join(tmp, 'ev'))

        def one(p):
            o = subprocess.run([os.path.join(HERE, 'check'), p], env=env, stdout=subprocess.PIPE, stderr=subprocess.STDOUT)
            return p, o.returncode, o.stdout.decode(errors='replace').replace(tmp, '/repo')
        with ThreadPoolExecutor(max_workers=6) as ex:
            res = list(ex.map(one, ids))
        bad = [(p, rc, out) for p, rc, out in res if rc != 0]
        txt = '%s: %s' % (diff, ('all %d checks silent' % len(ids)) if not bad else '')
        for p, rc, out in bad:
            lines = [l for l in out.splitlines() if ('[' in l and ': C' in l) or 'BROKEN' in l][:3]
            txt += '\n   %s exit=%d %s' % (p, rc, ' | '.join(l[:230] for l in lines))
        return txt
    finally:
        shutil.rmtree(tmp, ignore_errors=True)


with ThreadPoolExecutor(max_workers=3) as ex:
    for t in ex.map(one_diff, [os.path.abspath(x) for x in args]):
        print(t, flush=True)
