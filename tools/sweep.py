#!/usr/bin/env python3
"""mutation sweep on scratch copies (never touches /repo):  tools/sweep.py Cnn file first_line last_line [--ops del,neg,rel,bool,const]
For every generated single-line mutant of file[first..last] runs ./check Cnn on a scratch copy and prints the ones that
are NOT reported (exit 0), for manual triage: equivalent / not property-relevant / a gap."""
import os, sys, re, shutil, subprocess, tempfile, argparse
from concurrent.futures import ThreadPoolExecutor
VERIF = os.path.dirname(os.path.dirname(os.path.abspath(__file__)))
ap = argparse.ArgumentParser()
ap.add_argument('pid'); ap.add_argument('file'); ap.add_argument('first', type=int); ap.add_argument('last', type=int)
ap.add_argument('--ops', default='del,neg,rel,bool,const')
ap.add_argument('-j', type=int, default=12)
a = ap.parse_args()
src = os.path.join('/repo', a.file)
lines = open(src, encoding='latin-1').read().split('\n')
ops = a.ops.split(',')
muts = []
for ln in range(a.first, a.last + 1):
    if ln > len(lines):
        break
    t = lines[ln - 1]
    s = t.strip()
    if not s or s.startswith('//') or s.startswith('*') or s.startswith('/*') or s.startswith('#'):
        continue
    if 'del' in ops and s.endswith(';') and not re.match(r'^(return\b|break;|continue;|[\w:<>\s\*&,]+\s+\w+(\s*=.*)?;$)', s) :
        muts.append((ln, 'del', ''))
    if 'del' in ops and re.match(r'^(break;|continue;|return[^;]*;)$', s):
        muts.append((ln, 'del', ''))
    if 'neg' in ops:
        m = re.match(r'^(\s*(?:else\s+)?(?:if|while)\s*\()(.*)(\)\s*\{?\s*)$', t)
        if m:
            muts.append((ln, 'neg', m.group(1) + '!(' + m.group(2) + ')' + m.group(3)))
    if 'rel' in ops:
        for (x, y) in (('<=', '<'), ('>=', '>'), ('==', '!='), ('!=', '==')):
            for mm in re.finditer(re.escape(x), t):
                muts.append((ln, 'rel %s->%s' % (x, y), t[:mm.start()] + y + t[mm.end():]))
        for mm in re.finditer(r'(?<![<>=!\-])([<>])(?![<>=])', t):
            if 'template' in t or '#include' in t or '->' in t[max(0, mm.start() - 1):mm.end() + 1] or re.search(r'\w<[\w:\s,\*&]+>', t):
                continue
            muts.append((ln, 'rel %s->%s=' % (mm.group(1), mm.group(1)), t[:mm.end()] + '=' + t[mm.end():]))
    if 'bool' in ops:
        for (x, y) in (('&&', '||'), ('||', '&&')):
            for mm in re.finditer(re.escape(x), t):
                muts.append((ln, 'bool %s->%s' % (x, y), t[:mm.start()] + y + t[mm.end():]))
    if 'const' in ops:
        for mm in re.finditer(r'(?<![\w.])(\d+)(?![\w.])', t):
            v = int(mm.group(1))
            if 'case' in t:
                continue
            muts.append((ln, 'const %d->%d' % (v, v + 1), t[:mm.start()] + str(v + 1) + t[mm.end():]))
            if v > 0:
                muts.append((ln, 'const %d->%d' % (v, v - 1), t[:mm.start()] + str(v - 1) + t[mm.end():]))


def run(m):
    ln, kind, new = m
    tmp = tempfile.mkdtemp(prefix='cppcms-sweep-')
    try:
        for d in ('src', 'private', 'cppcms', 'booster'):
            subprocess.run(['cp', '-al', os.path.join('/repo', d), os.path.join(tmp, d)], check=True)
        L = list(lines)
        L[ln - 1] = new
        dst = os.path.join(tmp, a.file)
        os.unlink(dst)
        open(dst, 'w', encoding='latin-1').write('\n'.join(L))
        env = dict(os.environ, VERIF_REPO=tmp, VERIF_EVIDENCE_DIR=os.path.join(tmp, 'ev'))
        rcs = []
        why = ''
        for pid in a.pid.split(','):
            p = subprocess.run([os.path.join(VERIF, 'check'), pid], env=env, stdout=subprocess.PIPE, stderr=subprocess.STDOUT)
            rcs.append(p.returncode)
            if p.returncode == 1:
                break
            if p.returncode == 2:
                why = (p.stdout.decode('latin-1').strip().split('\n') or [''])[-1][:160]
        return (m + (why,), 1 if 1 in rcs else (2 if 2 in rcs else 0))
    finally:
        shutil.rmtree(tmp, ignore_errors=True)


with ThreadPoolExecutor(a.j) as ex:
    res = list(ex.map(run, muts))
n = {0: 0, 1: 0, 2: 0}
for (m, rc) in res:
    n[rc if rc in n else 2] += 1
print('%d mutants: %d reported, %d silent, %d not analysable (do not compile / anchor lost)' % (len(res), n[1], n[0], n[2]))
for (m, rc) in res:
    if rc == 0:
        print('SILENT %s:%d [%s]  %s   =>   %s' % (a.file, m[0], m[1], lines[m[0] - 1].strip()[:90], m[2].strip()[:90]))
    elif rc != 1 and 'error:' not in m[3] and 'compil' not in m[3]:
        print('BROKEN %s:%d [%s]  %s   =>   %s   ## %s' % (a.file, m[0], m[1], lines[m[0] - 1].strip()[:70], m[2].strip()[:70], m[3]))
