#!/usr/bin/env python3
"""Regenerates /verif/MANIFEST.json from the claims table below (kept next to the rules so the two cannot drift)."""
import json, os, sys
HERE = os.path.dirname(os.path.dirname(os.path.abspath(__file__)))
sys.path.insert(0, HERE)
from rules.claims import CLAIMS, NOT_APPLICABLE

props = [json.loads(l)['id'] for l in open(os.path.join(HERE, 'properties.jsonl'))]
checks = []
for pid in props:
    c = CLAIMS.get(pid)
    if not c:
        continue
    checks.append({
        'property_id': pid,
        'quick_cmd': './check %s --tier quick' % pid,
        'thorough_cmd': './check %s --tier thorough' % pid,
        'evidence_file': '/verif/evidence/%s.json' % pid,
        'replay_cmd_template': './check %s --replay {path}' % pid,
        'engine': c.get('engine', 'cppcms-facts + vlib rules'),
        'level_claimed': {'category': c.get('category', 'other'), 'text': c['text'], 'design_ref': 'DESIGN.md §2 %s' % pid},
        'level_note': c['note'],
        'technique': c['technique'],
    })
na = [{'property_id': p, 'reason': NOT_APPLICABLE.get(p, 'static rules for this property are designed (DESIGN.md §2) but not built yet; not claimed until the check exists')}
      for p in props if p not in CLAIMS]
m = {
    'version': 1,
    'setup_cmd': './setup.sh',
    'hooks': {'guard': 'CPPCMS_VERIF',
              'enable': 'not needed: every check is a static analysis of /repo\'s sources; /repo carries no hook commits (only unguarded "fix:" commits listed in known_findings.json)',
              'baseline_off_cmd': '/verif/tools/baseline.sh /repo/_build',
              'source_commits': [], 'add_only': True},
    'engines': [
        {'name': 'cppcms-facts', 'path': 'tools/facts/facts.cpp', 'serves_properties': sorted(CLAIMS),
         'kind_free_text': 'libTooling (clang 14) extractor: type-resolved statement trees, resolved callees/overloads, constant-evaluated expressions and the clang CFG of every function definition, class hierarchy, enums, global tables'},
        {'name': 'vlib', 'path': 'vlib/', 'serves_properties': sorted(CLAIMS),
         'kind_free_text': 'Python rule library: edge-sensitive cut-set domination on the CFG, reaching definitions / provenance, lockset dataflow, handler-linearity dataflow, pairing, who-may-call / who-writes, table agreement, abstract interpretation of byte-level functions, linear guard-implication (Fourier-Motzkin)'},
    ],
    'checks': checks,
    'notes': 'Technique family: static analysis only (no cppcms code is executed, linked or handed to a solver). exit 0 = all armed rules hold, 1 = VIOLATION line(s), 2 = ANALYSIS-BROKEN (anchor vanished / extractor failed / instance floor not met).',
    'not_applicable': na,
}
json.dump(m, open(os.path.join(HERE, 'MANIFEST.json'), 'w'), indent=1)
print('MANIFEST: %d checks, %d not_applicable' % (len(checks), len(na)))
