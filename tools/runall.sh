#!/bin/bash
# run every claimed check on the current tree (quick tier unless $1 given), validate manifest + evidence against the schemas
cd "$(dirname "$0")/.."
TIER=${1:-quick}
python3 tools/mkmanifest.py >/dev/null
ids=$(python3 -c "import json;print(' '.join(c['property_id'] for c in json.load(open('MANIFEST.json'))['checks']))")
rc=0
for p in $ids; do
  out=$(./check $p --tier $TIER 2>&1); code=$?
  echo "$p exit=$code $(echo "$out" | tail -1)"
  [ $code -ne 0 ] && rc=1
done
python3-vt - <<'PY' || rc=1
import json,jsonschema,sys
m=json.load(open('/verif/MANIFEST.json'))
jsonschema.validate(m,json.load(open('/root/.vp/MANIFEST.schema.json')))
es=json.load(open('/root/.vp/EVIDENCE.schema.json'))
bad=0
for c in m['checks']:
    e=json.load(open(c['evidence_file']))
    jsonschema.validate(e,es)
    cov=e['coverage']
    if e['level']!=c['level_claimed']['category']: print('level mismatch',c['property_id']); bad=1
    if e['level']=='proof' and cov['obligations']!=cov['discharged']: print('proof mismatch',c['property_id']); bad=1
    if e.get('violations'): print('violations in evidence',c['property_id']); bad=1
print('schemas ok' if not bad else 'EVIDENCE PROBLEM')
sys.exit(bad)
PY
exit $rc
