#!/bin/bash
# second pass: re-run serially (with retries) the pinned tests that failed under concurrent confirmation
# usage: confirm_baseline.sh <worktree> <outdir>
WT=$1; OUT=$2
FAILED=$(grep "baseline tests" $OUT/confirm.log | tail -1 | sed "s/.*retry: //" | tr -d "[]',")
[ -z "$FAILED" ] && { echo "RESULT2 baseline=0 (nothing to retry)" >> $OUT/confirm.log; exit 0; }
cd $WT && git checkout -- . && git apply $OUT/patch.diff && ninja -C _build -j8 >/dev/null 2>&1 || { echo "RESULT2 build failed" >> $OUT/confirm.log; exit 2; }
BAD=""
for t in $FAILED; do
  ok=0
  for k in 1 2 3 4 5; do
    if /verif/tools/isolated.sh ctest --test-dir $WT/_build -R "^$t\$" --timeout 900 >/dev/null 2>&1; then ok=1; break; fi
    sleep 3
  done
  [ $ok = 1 ] || BAD="$BAD $t"
done
git checkout -- . ; ninja -C _build -j8 >/dev/null 2>&1
echo "RESULT2 retried: $FAILED ; still failing with the mutant applied: [${BAD}]" >> $OUT/confirm.log
