#!/usr/bin/env python3
"""run every stored mutant against the check(s) of its property on a scratch copy of the current sources (never touches /repo).
   tools/seeded.py [name-prefix]     prints a detection table; exit 1 if a mutant is not reported"""
import sys, os, json, subprocess, glob, tempfile, shutil
from concurrent.futures import ThreadPoolExecutor
HERE = os.path.dirname(os.path.dirname(os.path.abspath(__file__)))
pref = sys.argv[1] if len(sys.argv) > 1 else ''


def one(d):
    name = os.path.basename(d)
    meta = json.load(open(os.path.join(d, 'meta.json')))
    props = [meta['property']] + meta.get('also_check', [])
    tmp = tempfile.mkdtemp(prefix='cppcms-seeded-')
    try:
        for s in ('src', 'private', 'cppcms', 'booster'):
            shutil.copytree(os.path.join('/repo', s), os.path.join(tmp, s), symlinks=True)
        r = subprocess.run(['patch', '-p1', '-s', '-d', tmp, '-i', os.path.join(d, 'patch.diff')], stdout=subprocess.PIPE, stderr=subprocess.STDOUT)
        if r.returncode != 0:
            return name, 'patch does not apply', False
        env = dict(os.environ, VERIF_REPO=tmp, VERIF_EVIDENCE_DIR=os.path.join(tmp, 'ev'))
        res, hit = [], False
        for p in props:
            o = subprocess.run([os.path.join(HERE, 'check'), p], env=env, stdout=subprocess.PIPE, stderr=subprocess.STDOUT).stdout.decode(errors='replace')
            viol = [l for l in o.splitlines() if ': C' in l and '[' in l][:2]
            code = 'VIOLATION' if 'VIOLATION property=' in o else ('BROKEN' if 'ANALYSIS-BROKEN' in o else 'missed')
            hit = hit or code == 'VIOLATION'
            res.append('%s:%s %s' % (p, code, ' | '.join(v.split(': ', 1)[1][:110] for v in viol)))
        return name, ' ; '.join(res), hit
    finally:
        shutil.rmtree(tmp, ignore_errors=True)


dirs = [d for d in sorted(glob.glob(os.path.join(HERE, 'seeded', '*'))) if os.path.basename(d).startswith(pref) and os.path.exists(os.path.join(d, 'meta.json'))]
with ThreadPoolExecutor(max_workers=6) as ex:
    rows = list(ex.map(one, dirs))
for name, txt, hit in rows:
    print('%-8s %s' % (name, txt))
missed = [n for n, _, h in rows if not h]
print('%d of %d reported%s' % (len(rows) - len(missed), len(rows), ('; NOT reported: %s' % missed) if missed else ''))
sys.exit(1 if missed else 0)
