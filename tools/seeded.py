#!/usr/bin/env python3
"""run every stored mutant against the check(s) of its property: apply to /repo, check, undo.  Prints a detection table.
   tools/seeded.py [name-prefix]"""
import sys, os, json, subprocess, glob
HERE = os.path.dirname(os.path.dirname(os.path.abspath(__file__)))
rows = []
pref = sys.argv[1] if len(sys.argv) > 1 else ''
dirty = subprocess.run(['git', '-C', '/repo', 'status', '--porcelain', '--untracked-files=no'], stdout=subprocess.PIPE).stdout.decode().strip()
if dirty:
    print('refusing: /repo has uncommitted changes'); sys.exit(2)
for d in sorted(glob.glob(os.path.join(HERE, 'seeded', '*'))):
    name = os.path.basename(d)
    if not name.startswith(pref):
        continue
    meta = json.load(open(os.path.join(d, 'meta.json')))
    props = [meta['property']] + meta.get('also_check', [])
    try:
        r = subprocess.run(['git', '-C', '/repo', 'apply', os.path.join(d, 'patch.diff')])
        if r.returncode != 0:
            rows.append((name, props, 'patch does not apply')); continue
        res = []
        for p in props:
            o = subprocess.run([os.path.join(HERE, 'check'), p], stdout=subprocess.PIPE, stderr=subprocess.STDOUT).stdout.decode()
            viol = [l for l in o.splitlines() if ': C' in l and '[' in l][:2]
            code = 'VIOLATION' if 'VIOLATION property=' in o else ('BROKEN' if 'ANALYSIS-BROKEN' in o else 'missed')
            res.append('%s:%s %s' % (p, code, ' | '.join(v.split(': ', 1)[1][:110] for v in viol)))
        rows.append((name, props, ' ; '.join(res)))
    finally:
        subprocess.run(['git', '-C', '/repo', 'checkout', '--', '.'])
for r in rows:
    print('%-8s %s' % (r[0], r[2]))
