#!/usr/bin/env python3
"""single-edit probe on a scratch copy (does not touch /repo): tools/smut.py Cnn file 'old' 'new' [more 'old' 'new' pairs]"""
import os, sys, shutil, subprocess, tempfile
VERIF = os.path.dirname(os.path.dirname(os.path.abspath(__file__)))
pid, rel = sys.argv[1], sys.argv[2]
pairs = sys.argv[3:]
src = os.path.join('/repo', rel)
text = open(src, encoding='latin-1').read()
for k in range(0, len(pairs), 2):
    old, new = pairs[k], pairs[k + 1]
    if text.count(old) != 1:
        print('anchor text occurs %d times' % text.count(old)); sys.exit(3)
    text = text.replace(old, new)
tmp = tempfile.mkdtemp(prefix='cppcms-smut-')
try:
    for d in ('src', 'private', 'cppcms', 'booster'):
        shutil.copytree(os.path.join('/repo', d), os.path.join(tmp, d), symlinks=True)
    open(os.path.join(tmp, rel), 'w', encoding='latin-1').write(text)
    env = dict(os.environ, VERIF_REPO=tmp, VERIF_EVIDENCE_DIR=os.path.join(tmp, 'ev'))
    p = subprocess.run([os.path.join(VERIF, 'check'), pid], env=env, stdout=subprocess.PIPE, stderr=subprocess.STDOUT)
    out = p.stdout.decode(errors='replace').replace(tmp, '/repo')
    lines = [l for l in out.splitlines() if not l.startswith('  C')]
    print('\n'.join(lines[-8:]))
    print('exit', p.returncode)
finally:
    shutil.rmtree(tmp, ignore_errors=True)
