#!/bin/sh
# baseline_off_cmd: run the repository's pinned suite (no verification guard exists; the tree is not instrumented)
# and compare with the stable set of /root/.vp/BASELINE.json.  Tests that share TCP ports are retried serially.
B=${1:-/repo/_build}
cd "$B" || exit 2
ninja >/dev/null 2>&1 || { echo "build failed"; exit 2; }
ctest -j8 --timeout 900 >/dev/null 2>&1
python3 - "$B" <<'PY'
import json,subprocess,sys,re,os
B=sys.argv[1]
base=[t.split('::')[0] for t in json.load(open('/root/.vp/BASELINE.json'))['stable_pass']]
log=open(os.path.join(B,'Testing/Temporary/LastTestsFailed.log')).read() if os.path.exists(os.path.join(B,'Testing/Temporary/LastTestsFailed.log')) else ''
failed=set(l.split(':',1)[1].strip() for l in log.splitlines() if ':' in l)
bad=[]
for t in base:
    if t in failed:
        r=subprocess.run(['ctest','-R','^%s$'%t,'--timeout','900'],cwd=B,stdout=subprocess.PIPE,stderr=subprocess.STDOUT)
        if r.returncode!=0: bad.append(t)
print('baseline tests: %d, failing after serial retry: %s'%(len(base),bad))
sys.exit(1 if bad else 0)
PY
