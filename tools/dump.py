#!/usr/bin/env python3
"""debug aid: ./tools/dump.py <unit.cpp> <function-name-substring> [--tree] [--cfg]"""
import sys, os
sys.path.insert(0, os.path.dirname(os.path.dirname(os.path.abspath(__file__))))
from vlib import build, model


def show(fn, i, ind=0):
    n = fn.N(i)
    extra = []
    for k in ('op', 'ref', 'cn', 'cv', 'cast', 's', 'label'):
        if k in n:
            extra.append('%s=%r' % (k, n[k]))
    t = fn.type_of(n)
    print('%s#%d %s %s  <%s> L%d' % ('  ' * ind, i, n['k'], ' '.join(extra), t, n['l']))
    for c in n['ch']:
        show(fn, c, ind + 1)


def main():
    unit, pat = sys.argv[1], sys.argv[2]
    inc = None
    for a in sys.argv[3:]:
        if a.startswith('--inc='):
            inc = a[6:]
    P = model.Program(build.extract([os.path.abspath(unit)], include_re=inc))
    for f in P.fns.values():
        if pat in f.id:
            print('=== %s  %s:%d' % (f.id, f.file, f.line))
            if '--tree' in sys.argv:
                show(f, f.body)
            if '--cfg' in sys.argv:
                for b in sorted(f.blocks.values(), key=lambda b: -b.id):
                    print(' B%d succ=%s term=%s tcond=%s' % (b.id, f.succ_edges(b.id), b.term, b.tcond))
                    for e in b.elems:
                        if 'n' in e:
                            n = f.N(e['n'])
                            print('    #%d %s %s L%d' % (e['n'], n['k'], n.get('cn') or n.get('ref') or n.get('op') or '', n['l']))
                        else:
                            print('    ', e)


main()
