#!/usr/bin/env python3
"""self-test aid: apply one textual edit to a file in /repo, run a check, restore the file.
   tools/mut.py C05 src/session_pool.cpp 'OLD' 'NEW' [--tier T]     (OLD is a literal string, must occur exactly once unless --all)"""
import sys, subprocess, os
pid, rel, old, new = sys.argv[1:5]
p = os.path.join('/repo', rel)
s = open(p).read()
n = s.count(old)
if n != 1 and '--all' not in sys.argv:
    print('pattern occurs %d times' % n); sys.exit(3)
try:
    open(p, 'w').write(s.replace(old, new))
    r = subprocess.run([os.path.join(os.path.dirname(os.path.abspath(__file__)), '..', 'check'), pid] + [a for a in sys.argv[5:] if a != '--all'])
    print('exit', r.returncode)
finally:
    open(p, 'w').write(s)
