#!/bin/sh
# run "$@" with a private /tmp (except /tmp/wt) and a private network namespace,
# so fixed unix-socket paths / TCP ports used by the test-suite cannot collide with other jobs
exec unshare -m -n sh -c 'ip link set lo up; mkdir -p /mnt/vfwt && mount --bind /tmp/wt /mnt/vfwt && mount -t tmpfs none /tmp && mkdir /tmp/wt && mount --move /mnt/vfwt /tmp/wt && exec "$@"' sh "$@"
