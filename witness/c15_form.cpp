// analysis-only unit (never linked or run): instantiates the numeric widget templates of cppcms/form.h
#include <cppcms/form.h>
namespace cppcms { namespace widgets {
template class numeric<int>;
template class numeric<double>;
} }
