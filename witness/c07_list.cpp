// analysis-only unit (never linked or run): instantiates every member of the intrusive list used by the cache's hash index
#include "hash_map.h"
namespace c07_witness {
	struct node { node *next, *prev; int payload; };
}
template class cppcms::impl::details::intrusive_list<c07_witness::node>;
