// analysis-only unit (never linked or run): instantiates the archive_traits templates so that
// their member functions have bodies for the fact extractor.
#include <cppcms/serialization.h>
#include <cppcms/json.h>
#include <string>
#include <vector>
#include <list>
#include <set>
#include <map>
#include <memory>
#include <booster/shared_ptr.h>
#include <booster/hold_ptr.h>
#include <booster/copy_ptr.h>
#include <booster/clone_ptr.h>
#include <booster/intrusive_ptr.h>
namespace cppcms {
template struct archive_traits<std::pair<int, std::string> >;
template struct archive_traits<std::vector<std::string> >;
template struct archive_traits<std::list<int> >;
template struct archive_traits<std::set<std::string> >;
template struct archive_traits<std::multiset<int> >;
template struct archive_traits<std::map<std::string, int> >;
template struct archive_traits<std::multimap<int, std::string> >;
template struct archive_traits<int[3]>;
template struct archive_traits<std::string[2]>;
}
// smart pointers: the traits come from two macros of archive_traits.h that nothing in the library instantiates
namespace c19w {
struct node {
	int v;
	long refs;
	node() : v(0), refs(0) {}
	node *clone() const { return new node(*this); }
};
inline void intrusive_ptr_add_ref(node *p) { ++p->refs; }
inline void intrusive_ptr_release(node *p) { if(--p->refs == 0) delete p; }
}
namespace cppcms {
template<>
struct archive_traits<c19w::node> {
	static void save(c19w::node const &d, archive &a) { a.write_chunk(&d.v, sizeof(d.v)); }
	static void load(c19w::node &d, archive &a) { a.read_chunk(&d.v, sizeof(d.v)); }
};
}
namespace cppcms {
template struct archive_traits<booster::shared_ptr<c19w::node> >;
template struct archive_traits<booster::hold_ptr<c19w::node> >;
template struct archive_traits<booster::copy_ptr<c19w::node> >;
template struct archive_traits<booster::clone_ptr<c19w::node> >;
template struct archive_traits<std::unique_ptr<c19w::node> >;
template struct archive_traits<booster::intrusive_ptr<c19w::node> >;
}
void c19_witness(cppcms::archive &a, std::vector<int> &vi, std::string &s, double &d)
{
	cppcms::archive_traits<std::vector<int> >::load(vi, a);
	cppcms::archive_traits<std::vector<int> >::save(vi, a);
	cppcms::archive_traits<std::string>::load(s, a);
	cppcms::archive_traits<std::string>::save(s, a);
	cppcms::archive_traits<double>::load(d, a);
	cppcms::archive_traits<double>::save(d, a);
}
