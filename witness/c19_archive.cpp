// analysis-only unit (never linked or run): instantiates the archive_traits templates so that
// their member functions have bodies for the fact extractor.
#include <cppcms/serialization.h>
#include <cppcms/json.h>
#include <string>
#include <vector>
#include <list>
#include <set>
#include <map>
namespace cppcms {
template struct archive_traits<std::pair<int, std::string> >;
template struct archive_traits<std::vector<std::string> >;
template struct archive_traits<std::list<int> >;
template struct archive_traits<std::set<std::string> >;
template struct archive_traits<std::multiset<int> >;
template struct archive_traits<std::map<std::string, int> >;
template struct archive_traits<std::multimap<int, std::string> >;
template struct archive_traits<int[3]>;
template struct archive_traits<std::string[2]>;
}
void c19_witness(cppcms::archive &a, std::vector<int> &vi, std::string &s, double &d)
{
	cppcms::archive_traits<std::vector<int> >::load(vi, a);
	cppcms::archive_traits<std::vector<int> >::save(vi, a);
	cppcms::archive_traits<std::string>::load(s, a);
	cppcms::archive_traits<std::string>::save(s, a);
	cppcms::archive_traits<double>::load(d, a);
	cppcms::archive_traits<double>::save(d, a);
}
