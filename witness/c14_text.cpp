// analysis-only unit (never linked or run): instantiates the text validators for `char const *`
#include "utf_iterator.h"
#include "encoding_validators.h"
#include <booster/locale/utf.h>
#include <booster/locale/encoding_utf.h>
#include <stddef.h>
#include <string>
namespace cppcms { namespace utf8 {
template uint32_t next<char const *>(char const *&, char const *, bool, bool);
template bool validate<char const *>(char const *, char const *, size_t &, bool);
template bool validate<char const *>(char const *, char const *, bool);
} }
unsigned c14_booster_decode(char const *&p, char const *e)
{
	return booster::locale::utf::utf_traits<char>::decode(p, e);
}
bool c14_validators(char const *b, char const *e, size_t &n)
{
	using namespace cppcms::encoding;
	bool r = utf8_valid(b, e, n);
	r = ascii_valid(b, e, n) && r;
	r = iso_8859_1_2_4_5_9_10_13_14_15_16_valid(b, e, n) && r;
	r = iso_8859_3_valid(b, e, n) && r;
	r = iso_8859_6_valid(b, e, n) && r;
	r = iso_8859_7_valid(b, e, n) && r;
	r = iso_8859_8_valid(b, e, n) && r;
	r = iso_8859_11_valid(b, e, n) && r;
	r = windows_1250_valid(b, e, n) && r;
	r = windows_1251_valid(b, e, n) && r;
	r = windows_1252_valid(b, e, n) && r;
	r = windows_1253_valid(b, e, n) && r;
	r = windows_1254_valid(b, e, n) && r;
	r = windows_1255_valid(b, e, n) && r;
	r = windows_1256_valid(b, e, n) && r;
	r = windows_1257_valid(b, e, n) && r;
	r = windows_1258_valid(b, e, n) && r;
	r = koi8_valid(b, e, n) && r;
	return r;
}
std::string c14_utf_to_utf(char const *b, char const *e, booster::locale::conv::method_type how)
{
	return booster::locale::conv::utf_to_utf<char, char>(b, e, how);
}
std::string c14_utf_to_utf_string(std::string const &s, booster::locale::conv::method_type how)
{
	return booster::locale::conv::utf_to_utf<char, char>(s, how);
}
std::string c14_utf_to_utf_cstr(char const *s, booster::locale::conv::method_type how)
{
	return booster::locale::conv::utf_to_utf<char, char>(s, how);
}
