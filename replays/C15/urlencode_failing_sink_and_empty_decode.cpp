#include <cppcms/util.h>
#include <cppcms/base64.h>
#include <streambuf>
#include <iostream>
#include <string>
struct failing : std::streambuf {
  int overflow(int) { return EOF; }
  std::streamsize xsputn(char const*, std::streamsize) { return 0; }
};
int main() {
  failing f;
  char const *s = "a b&c";
  int r1 = cppcms::util::escape(s, s+5, f);
  int r2 = cppcms::util::urlencode(s, s+5, f);
  std::cout << "escape on failing sink -> " << r1 << " (documented -1)\n";
  std::cout << "urlencode on failing sink -> " << r2 << " (documented -1)\n";
  std::string out = "stale";
  bool ok = cppcms::b64url::decode("", out);
  std::cout << "decode(\"\") -> " << ok << " output='" << out << "' (expected empty)\n";
  return (r2 == -1 && out.empty()) ? 0 : 1;
}
