// NOT one of the two mutations: a defect that is already present in the UNMODIFIED tree,
// found while reading private/string_map.h.  string_pool::clear() keeps the LAST page of the
// list and assumes it is page_size_ (2048) bytes big, but allocate_space() links an
// over-sized block (1025..2047 bytes requested) AFTER the head page, so when the pool has only
// its initial page that block becomes the last page and survives clear() with the wrong size.
// The pool is cleared and reused for every request of an HTTP / FastCGI keep-alive connection
// (http::reset_all, fastcgi::reset_all), so a first request carrying one 1.1-2 KB header value
// followed by a second request with >1.1 KB of headers overflows the heap block.
// Build: g++ -std=c++11 -g -fsanitize=address -I<src>/private -I<src> -I<src>/booster -I<build> -I<build>/booster pool_bug.cpp
#include "string_map.h"
#include <stdio.h>
int main(){
  cppcms::impl::string_pool p;      // one 2048-byte page
  p.alloc(1100);                    // "big" block (size*2 > page): linked after the only page
  p.clear();                        // keeps the LAST page = the 1100-byte block, but free_space_=2048
  char *a = p.alloc(1000);          // fits into 1100
  char *b = p.alloc(1000);          // 900 bytes past the end of the 1100-byte block
  printf("%p %p\n",(void*)a,(void*)b);
  return 0;
}
